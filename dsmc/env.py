"""Environment closure: every source of nondeterminism DataShard can see is
owned here (DESIGN.md 2.2).  Installed from the harness process only; nothing
in /repo is modified.

  uuid.uuid4            -> md5(seed, actor, per-actor counter)
  time.time/monotonic   -> virtual clock
  time.sleep            -> scheduler park (or plain clock advance when no
                           scheduler is active)
  datetime.datetime.now -> virtual clock
  random.uniform        -> midpoint
  fastavro sync marker  -> per-actor counter
  tempfile names        -> per-actor counter
"""
from __future__ import annotations

import datetime as _dt
import hashlib
import os
import random as _random
import sys
import tempfile as _tempfile
import threading
import time as _time
import uuid as _uuid

T0 = 1_700_000_000.0  # virtual epoch (seconds)

REAL_TIME = _time.time
REAL_MONOTONIC = _time.monotonic
REAL_SLEEP = _time.sleep
REAL_UUID4 = _uuid.uuid4
REAL_DATETIME = _dt.datetime
REAL_UNIFORM = _random.uniform
REAL_CANDIDATES = _tempfile._get_candidate_names

HINT_NAME = "metadata.version-hint.text"


class Env:
    def __init__(self) -> None:
        self.clock = T0
        self.seed = 0
        self.clock_mode = "TICK"  # TICK | FROZEN
        self.counters: dict = {}
        self.local = threading.local()
        self.sched = None  # active dsmc.sched.Execution, if any
        self.installed = False
        self.hooks: list = []  # os-level listeners (see localfs.py)
        self.clock_reads = 0

    # ---- actors -------------------------------------------------------
    def actor(self) -> str:
        return getattr(self.local, "actor", "main")

    def set_actor(self, name: str) -> None:
        self.local.actor = name

    def next_id(self, kind: str) -> int:
        k = (self.actor(), kind)
        n = self.counters.get(k, 0)
        self.counters[k] = n + 1
        return n

    # ---- reset between executions --------------------------------------
    def reset(self, seed: int = 0, clock_mode: str = "TICK", clock: float = T0) -> None:
        self.seed = seed
        self.clock_mode = clock_mode
        self.clock = clock
        self.counters = {}
        self.clock_reads = 0

    def snapshot(self):
        return (self.clock, dict(self.counters), self.clock_mode, self.seed)

    def restore(self, snap) -> None:
        self.clock, counters, self.clock_mode, self.seed = snap
        self.counters = dict(counters)

    # ---- clock ---------------------------------------------------------
    def now(self) -> float:
        s = self.sched
        if s is not None:
            s.observe_clock(self.clock)
        return self.clock

    def advance(self, d: float) -> None:
        if d > 0:
            self.clock += d

    def on_publish(self, path: str) -> None:
        """Called by the storage seams after a successful publish of `path`."""
        if self.clock_mode == "TICK" and path.endswith(HINT_NAME):
            self.clock = round(self.clock + 0.001, 6)

    def sleep(self, d: float) -> None:
        s = self.sched
        if s is not None and s.manages_current():
            s.sleep(d)
        else:
            self.advance(max(0.0, float(d)))


ENV = Env()


def _uuid4() -> _uuid.UUID:
    n = ENV.next_id("uuid")
    h = hashlib.md5(f"{ENV.seed}:{ENV.actor()}:{n}".encode()).digest()
    return _uuid.UUID(bytes=h, version=4)


def _urandom(n: int) -> bytes:
    c = ENV.next_id("urandom")
    h = hashlib.sha256(f"{ENV.seed}:{ENV.actor()}:ur:{c}".encode()).digest()
    return (h * (n // len(h) + 1))[:n]


class VDateTime(REAL_DATETIME):
    @classmethod
    def now(cls, tz=None):  # type: ignore[override]
        t = ENV.now()
        if tz is None:
            # naive local time; harness runs with TZ=UTC
            return cls.fromtimestamp(t)
        return cls.fromtimestamp(t, tz)

    @classmethod
    def utcnow(cls):  # type: ignore[override]
        return cls.fromtimestamp(ENV.now(), _dt.timezone.utc).replace(tzinfo=None)


def _candidate_names():
    class _It:
        def __iter__(self):
            return self

        def __next__(self):
            n = ENV.next_id("tmp")
            a = ENV.actor().replace("/", "_")
            return f"{a}x{n:04d}"

    return _It()


def _from_sut(depth: int = 2) -> bool:
    name = sys._getframe(depth).f_globals.get("__name__", "")
    return name.startswith(("datashard", "dsmc", "checks"))


def _sleep_dispatch(d):
    if _from_sut():
        return ENV.sleep(d)
    return REAL_SLEEP(d)


def _time_dispatch():
    if _from_sut():
        return ENV.now()
    return REAL_TIME()


def _monotonic_dispatch():
    if _from_sut():
        return ENV.now() - T0 + 1000.0
    return REAL_MONOTONIC()


def _uniform_dispatch(a, b):
    if _from_sut():
        return (a + b) / 2.0
    return REAL_UNIFORM(a, b)


class TimeProxy:
    """Stands in for the `time` module inside datashard modules."""

    def __getattr__(self, n):
        return getattr(_time, n)

    @staticmethod
    def time():
        return ENV.now()

    @staticmethod
    def monotonic():
        return ENV.now() - T0 + 1000.0

    @staticmethod
    def sleep(d):
        return ENV.sleep(d)


TIME = TimeProxy()


def install() -> None:
    """Idempotent.  Must run before `datashard` is imported (so that
    `from datetime import datetime` picks up VDateTime); module attributes are
    re-patched afterwards as well for safety."""
    if ENV.installed:
        return
    os.environ.setdefault("TZ", "UTC")
    try:
        _time.tzset()
    except Exception:
        pass
    try:  # one arrow CPU / IO thread per harness process (see dsmc/reader.py: rare hangs of the shared pool)
        import pyarrow as _pa

        _pa.set_cpu_count(1)
        _pa.set_io_thread_count(1)
    except Exception:  # noqa
        pass
    _uuid.uuid4 = _uuid4
    # `time` stays the real module for everybody else (multiprocessing's
    # deadline loops spin forever on a frozen monotonic clock): the library's
    # modules get a TimeProxy as their `time` attribute, and the one
    # function-local `import time` (Transaction.commit -> time.sleep) is served
    # by a caller-dispatching global sleep.
    _time.sleep = _sleep_dispatch
    # function-local `import time` inside datashard code sees the real module: time() / monotonic() dispatch on the
    # CALLER's module, so everybody else (multiprocessing, logging, ...) keeps the real clock
    _time.time = _time_dispatch
    _time.monotonic = _monotonic_dispatch
    _dt.datetime = VDateTime
    _random.uniform = _uniform_dispatch
    _tempfile._get_candidate_names = _candidate_names
    import fastavro._write as _fw

    _fw.urandom = _urandom
    try:
        import fastavro._write_py as _fwp

        _fwp.urandom = _urandom
    except Exception:
        pass
    ENV.installed = True
    # quiet the library: logging calls would otherwise dominate run time
    import logging

    logging.disable(logging.CRITICAL)
    import datashard  # noqa: F401
    import datashard.data_structures as ds
    import datashard.file_manager as fm
    import datashard.metadata_manager as mm
    import datashard.snapshot_manager as sm

    for m in (ds, fm, mm, sm):
        if getattr(m, "datetime", None) is not VDateTime:
            m.datetime = VDateTime
    import datashard.file_lock as fl
    import datashard.garbage_collector as gcm
    import datashard.lock_provider as lp
    import datashard.s3_consistency as s3c

    for m in (fl, gcm, lp, s3c):
        m.time = TIME
    # any other datashard module that binds the real `time` module / `datetime` class at import time (a refactoring
    # may add such an import): same seams, so that wall-clock values never leak into names or file contents
    for name, m in list(sys.modules.items()):
        if name.startswith("datashard") and m is not None:
            if getattr(m, "time", None) is _time:
                m.time = TIME
            if getattr(m, "datetime", None) is REAL_DATETIME:
                m.datetime = VDateTime
