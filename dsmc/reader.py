"""Independent reader: json + fastavro + pyarrow only, *no* datashard import.

All oracles ("rows of snapshot S", "reachable set", "parent chain", manifest
entries) are computed with this module so that a bug in DataShard's own read
path cannot mask itself.
"""
from __future__ import annotations

import io
import json
import os
import re
from typing import Any, Dict, List, Optional, Set, Tuple

import fastavro
import pyarrow.parquet as _pq

HINT = "metadata.version-hint.text"
_MD_RE = re.compile(r"^v(\d+)(?:-[0-9a-f]{8})?\.metadata\.json$")


class ReadError(Exception):
    pass


# ---------------------------------------------------------------------------
# Views over a store
# ---------------------------------------------------------------------------
class LocalView:
    def __init__(self, root: str):
        self.root = os.path.realpath(root)

    def get(self, rel: str) -> Optional[bytes]:
        p = os.path.join(self.root, rel.lstrip("/"))
        try:
            with open(p, "rb") as f:
                return f.read()
        except (FileNotFoundError, NotADirectoryError, IsADirectoryError):
            return None

    def exists(self, rel: str) -> bool:
        return os.path.isfile(os.path.join(self.root, rel.lstrip("/")))

    def list(self) -> Set[str]:
        out = set()
        for r, _d, fs in os.walk(self.root):
            for f in fs:
                out.add(os.path.relpath(os.path.join(r, f), self.root))
        return out

    def mtime(self, rel: str) -> float:
        return os.path.getmtime(os.path.join(self.root, rel.lstrip("/")))


class S3View:
    def __init__(self, fake: Any, prefix: str):
        self.fake = fake
        self.prefix = prefix.strip("/")

    def _k(self, rel: str) -> str:
        rel = rel.lstrip("/")
        return f"{self.prefix}/{rel}" if self.prefix else rel

    def get(self, rel: str) -> Optional[bytes]:
        o = self.fake.objs.get(self._k(rel))
        return None if o is None else o.body

    def exists(self, rel: str) -> bool:
        return self._k(rel) in self.fake.objs

    def list(self) -> Set[str]:
        p = self.prefix + "/" if self.prefix else ""
        return {k[len(p):] for k in self.fake.objs if k.startswith(p)}

    def mtime(self, rel: str) -> float:
        return self.fake.objs[self._k(rel)].lm


# ---------------------------------------------------------------------------
# Parsing
# ---------------------------------------------------------------------------
def norm(p: str) -> str:
    """Table-relative canonical spelling of a stored path: leading slashes, '.' segments and doubled slashes carry no
    meaning ('./data/x', 'data//x' and '/data/x' name the file 'data/x')."""
    p = p.lstrip("/")
    if "//" in p or p.startswith("./") or "/./" in p:
        import posixpath

        p = posixpath.normpath(p)
        p = "" if p == "." else p
    return p


def pointer_target(view: Any) -> Optional[str]:
    """Metadata file named by the pointer if it is well formed and exists."""
    raw = view.get(HINT)
    if raw is None:
        return None
    try:
        text = raw.decode("utf-8").strip()
    except UnicodeDecodeError:
        return None
    if text.isdigit():
        text = f"v{text}.metadata.json"
    if not _MD_RE.match(text):
        return None
    return text if view.exists(f"metadata/{text}") else None


def metadata_files(view: Any) -> List[Tuple[int, str]]:
    out = []
    for rel in view.list():
        d, _, b = rel.rpartition("/")
        if d == "metadata":
            m = _MD_RE.match(b)
            if m:
                out.append((int(m.group(1)), b))
    return sorted(out)


def read_metadata(view: Any, name: Optional[str] = None) -> Optional[Dict[str, Any]]:
    if name is None:
        name = pointer_target(view)
        if name is None:
            return None
    raw = view.get(f"metadata/{name}")
    if raw is None:
        raise ReadError(f"metadata file missing: {name}")
    try:
        md = json.loads(raw.decode("utf-8"))
    except Exception as e:
        raise ReadError(f"metadata file unparseable: {name}: {e}") from e
    md["__file__"] = name
    return md


def _avro(raw: bytes, what: str) -> List[Dict[str, Any]]:
    try:
        return list(fastavro.reader(io.BytesIO(raw)))
    except Exception as e:
        raise ReadError(f"{what}: avro unparseable: {type(e).__name__}: {e}") from e


def read_manifest_list(view: Any, path: str) -> List[Dict[str, Any]]:
    raw = view.get(norm(path))
    if raw is None:
        raise ReadError(f"manifest list missing: {path}")
    return _avro(raw, path)


def read_manifest(view: Any, path: str) -> List[Dict[str, Any]]:
    raw = view.get(norm(path))
    if raw is None:
        raise ReadError(f"manifest missing: {path}")
    return _avro(raw, path)


def canon_val(v: Any) -> Any:
    if isinstance(v, float):
        return repr(v)
    if isinstance(v, (bytes, bytearray)):
        return ("b", bytes(v).hex())
    if isinstance(v, (int, str, bool)) or v is None:
        return v
    return repr(v)


def canon_row(row: Dict[str, Any]) -> Tuple:
    return tuple((k, canon_val(row[k])) for k in sorted(row))


def canon_rows(rows: List[Dict[str, Any]]) -> List[Tuple]:
    return sorted((canon_row(r) for r in rows), key=repr)


def read_parquet(view: Any, path: str) -> List[Dict[str, Any]]:
    raw = view.get(norm(path))
    if raw is None:
        raise ReadError(f"data file missing: {path}")
    try:
        # single-threaded: pyarrow's shared CPU pool has been seen to hang a to_table() call for good in a process
        # that also runs many scheduler-controlled Python threads
        return _pq.read_table(io.BytesIO(raw), use_threads=False).to_pylist()
    except Exception as e:
        raise ReadError(f"data file unparseable: {path}: {type(e).__name__}") from e


class SnapView:
    """Everything reachable from one snapshot."""

    def __init__(self, view: Any, snap: Dict[str, Any], rows: bool = True):
        self.snap = snap
        self.id = snap["snapshot_id"]
        self.mlist = norm(snap["manifest_list"])
        self.manifests: List[str] = []
        self.entries: List[Dict[str, Any]] = []  # manifest entries (dicts) in order
        self.data_files: List[str] = []
        self.rows: Optional[List[Tuple]] = None
        recs = read_manifest_list(view, self.mlist)
        seen: Set[str] = set()
        for r in recs:
            mp = norm(r["manifest_path"])
            self.manifests.append(mp)
            for e in read_manifest(view, mp):
                fp = norm(e["data_file"]["file_path"])
                ent = {
                    "manifest": mp, "status": e["status"], "snapshot_id": e["snapshot_id"],
                    "sequence_number": e.get("sequence_number"),
                    "file_sequence_number": e.get("file_sequence_number"),
                    "file_path": fp, "record_count": e["data_file"]["record_count"],
                    "checksum": e["data_file"].get("checksum"),
                    "lower_bounds": e["data_file"].get("lower_bounds"),
                    "upper_bounds": e["data_file"].get("upper_bounds"),
                }
                self.entries.append(ent)
                if fp not in seen:
                    seen.add(fp)
                    self.data_files.append(fp)
        if rows:
            allrows: List[Dict[str, Any]] = []
            for fp in self.data_files:
                allrows.extend(read_parquet(view, fp))
            self.rows = canon_rows(allrows)

    def files(self) -> Set[str]:
        return {self.mlist, *self.manifests, *self.data_files}


class TableState:
    def __init__(self, view: Any, name: Optional[str] = None, rows: bool = True, all_snaps: bool = True):
        self.view = view
        self.md = read_metadata(view, name)
        self.snaps: Dict[int, SnapView] = {}
        self.errors: List[str] = []
        if self.md is None:
            return
        cur = self.md.get("current_snapshot_id")
        for s in self.md.get("snapshots", []):
            if not all_snaps and s["snapshot_id"] != cur:
                continue
            try:
                self.snaps[s["snapshot_id"]] = SnapView(view, s, rows=rows)
            except ReadError as e:
                self.errors.append(f"snapshot {s['snapshot_id']}: {e}")

    @property
    def exists(self) -> bool:
        return self.md is not None

    @property
    def current_id(self) -> Optional[int]:
        if self.md is None:
            return None
        c = self.md.get("current_snapshot_id")
        return None if c in (None, -1) else c

    def snapshot_ids(self) -> List[int]:
        return [s["snapshot_id"] for s in (self.md or {}).get("snapshots", [])]

    def current_rows(self) -> List[Tuple]:
        c = self.current_id
        if c is None:
            return []
        sv = self.snaps.get(c)
        if sv is None:
            raise ReadError(f"current snapshot {c} unreadable: {self.errors}")
        return sv.rows or []

    def current_files(self) -> List[str]:
        c = self.current_id
        if c is None:
            return []
        return list(self.snaps[c].data_files)

    def reachable(self) -> Set[str]:
        out: Set[str] = set()
        for sv in self.snaps.values():
            out |= sv.files()
        return out

    def summary(self) -> Dict[str, Any]:
        md = self.md or {}
        return {
            "file": md.get("__file__"), "uuid": md.get("table_uuid"), "current": self.current_id,
            "snapshots": self.snapshot_ids(),
            "rows": None if self.errors else [list(r) for r in self.current_rows()],
            "errors": self.errors,
        }
