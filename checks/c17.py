"""C17 - no operation escapes the table root.

Exhaustive enumeration (DESIGN.md "### C17"): every path of a finite path
grammar x every storage / read entry point x {root reached directly, root
reached through a symlink} is executed against the real local backend over the
os-level seams.  Three oracles, all computed without the library's resolver:

  (1) every content read / write / delete / rename / directory listing the
      datashard modules issue (seam events; each path canonicalised by the
      harness' own realpath) lies inside the canonical root (component-wise
      boundary test);
  (2) the sentinel tree (everything in the scratch world except the table root:
      names, bytes, mtimes, link targets) is unchanged after the call;
  (3) when the reference denotation of the input (strip leading slashes, join
      onto the root, resolve '..' and symlinks with the harness' own walker,
      cross-checked against os.path.realpath) leaves the root, the call raised.

Scratch world (all inside one fresh_dir, so that four '..' never leave it):

  live/secret  live/a/secret  live/a/b/secret
  live/a/b/c/secret            c/data/secret
  live/a/b/c/outside/{secret,secret.inflight,data/secret}
  live/a/b/c/root_sibling/{f,data/secret}
  live/a/b/c/root/             real table: create_table + 2 appends + an aged orphan data file
       root/lnk_out -> ../outside       root/lnk_in -> data
       root/data/lnk_up -> ..           root/data/lnk_secret -> ../../outside/secret
  live/a/b/c/link -> root
"""
from __future__ import annotations

import io
import itertools
import json
import os
import shutil
import tempfile
from typing import Any, Callable, Dict, List, Optional, Sequence, Tuple

from dsmc.env import ENV, T0
from dsmc.report import HarnessError, Report, pmap

PROP = "C17"
COMPONENTS = ("..", ".", "", "data", "x", "lnk_out", "lnk_in", "lnk_up", "secret")
MODES = ("direct", "via_symlink")
CHUNK = 800  # paths per worker payload
GRACE_MS = 3600_000

STORAGE_ENTRIES = (
    "read_file", "open_file", "open_seekable", "read_json", "exists", "list_files",
    "get_size", "get_modified_time", "write_file", "write_json", "delete_file",
    "makedirs", "create_lock",
)
DFM_ENTRIES = ("get_arrow_path", "open_parquet_source", "write_data_file")
TABLE_ENTRIES = ("append_files", "scan_entry_verify", "scan_entry_noverify", "scan_manifest_path",
                 "scan_manifest_list", "gc_marker", "gc_listing")
ENTRIES = STORAGE_ENTRIES + DFM_ENTRIES + TABLE_ENTRIES
# entry points for which a TRUE absolute path is documented as "honoured only
# if inside the root": the literal path is the reference there
LITERAL_ABS = ("get_arrow_path", "open_parquet_source", "scan_entry_noverify", "write_data_file")


# ---------------------------------------------------------------------------
# the path grammar
# ---------------------------------------------------------------------------
def grammar(maxlen: int) -> List[str]:
    out: Dict[str, None] = {}
    for n in range(1, maxlen + 1):
        for seq in itertools.product(COMPONENTS, repeat=n):
            out["/".join(seq)] = None
            out["/" + "/".join(seq)] = None
            if n < maxlen:  # explicit doubled slashes (the "" component already doubles at depth maxlen)
                out["//".join(seq)] = None
                out["//" + "//".join(seq)] = None
    return list(out)


EXTRAS = (
    # string-prefix sibling of the root
    "../root_sibling/f", "/../root_sibling/f", "..//root_sibling/f", "data/../../root_sibling/f",
    "data/lnk_up/../root_sibling/f", "lnk_in/lnk_up/../root_sibling/data/secret", "../root_sibling",
    "../root_sibling/data/secret", "./../root_sibling/f",
    # plain names outside
    "../outside/secret", "/../outside/secret", "data/../../outside/secret", "data/lnk_up/../outside/secret",
    "../outside", "../outside/data/secret", "../outside/secret.inflight", "lnk_out/secret.inflight",
    "lnk_out/data/secret", "/lnk_out/data/secret", "data/lnk_up/lnk_out/data/secret",
    # file symlink pointing outside
    "data/lnk_secret", "/data/lnk_secret", "lnk_in/lnk_secret", "data//lnk_secret", "data/./lnk_secret",
    "data/lnk_up/data/lnk_secret", "data/lnk_secret/..", "data/lnk_secret/../secret",
    # leaves the root lexically and comes back
    "../root/data", "../link/data", "..//root/./data", "lnk_out/../root/data", "../root", "../link",
    "../../c/root/data", "data/lnk_up/../root/data",
    # deeper climbs
    "../../../../secret", "../../../x", "data/../../../../../secret",
)


def abs_paths(c: str, data_file: str) -> List[Tuple[str, str]]:
    """True absolute paths (label, path) - all inside the scratch world."""
    df = "data/" + data_file
    r, ln = c + "/root", c + "/link"
    return [
        ("abs_outside", f"{c}/outside/secret"), ("abs_outside", f"{c}/secret"),
        ("abs_outside", f"{c}/outside/data/secret"), ("abs_outside", f"{c}/outside"),
        ("abs_outside", c), ("abs_outside", f"{c}/outside/secret.inflight"),
        ("abs_sibling", f"{c}/root_sibling/f"), ("abs_sibling", f"{c}/root_sibling"),
        ("abs_sibling", f"{c}/root_sibling/data/secret"),
        ("abs_inside", f"{r}/{df}"), ("abs_inside", r), ("abs_inside", f"{r}/data"),
        ("abs_inside", f"{r}/data/orphan.parquet"), ("abs_inside", f"{r}/x"),
        ("abs_inside", f"{ln}/{df}"), ("abs_inside", ln), ("abs_inside", f"{ln}/data/x"),
        ("abs_inside", f"{r}/lnk_in/{data_file}"), ("abs_inside", f"{r}/data/lnk_up/{df}"),
        ("abs_inside", f"{r}//data//{data_file}"), ("abs_inside", f"{c}/outside/../root/{df}"),
        ("abs_symlink_out", f"{r}/lnk_out/secret"), ("abs_symlink_out", f"{ln}/lnk_out/secret"),
        ("abs_symlink_out", f"{r}/data/lnk_secret"), ("abs_symlink_out", f"{ln}/data/lnk_secret"),
        ("abs_symlink_out", f"{r}/data/lnk_up/lnk_out/data/secret"),
        ("abs_dotdot_out", f"{r}/../outside/secret"), ("abs_dotdot_out", f"{ln}/../outside/secret"),
        ("abs_dotdot_out", f"{r}/data/lnk_up/../secret"), ("abs_dotdot_out", f"{r}/../root_sibling/f"),
        ("abs_dotdot_out", f"{r}/data/../../secret"),
    ]


N_ABS = len(abs_paths("/c", "f.parquet"))


# ---------------------------------------------------------------------------
# the scratch world
# ---------------------------------------------------------------------------
SENTINELS = {
    "secret": b"S0 live\n",
    "a/secret": b"S1 a\n",
    "a/b/secret": b"S2 b\n",
    "a/b/c/secret": b"S3 c\n",
    "a/b/c/data/secret": b"S4 c/data\n",
    "a/b/c/outside/secret": b"TOP SECRET (outside the table root)\n",
    "a/b/c/outside/secret.inflight": b'{"file_path": "data/orphan.parquet"}',
    "a/b/c/outside/data/secret": b"S5 outside/data\n",
    "a/b/c/root_sibling/f": b"sibling file\n",
    "a/b/c/root_sibling/data/secret": b"S6 sibling/data\n",
}


def _split(p: str) -> List[str]:
    return [x for x in p.split("/") if x]


class World:
    def __init__(self, name: str, mode: str, seed: int):
        from datashard import create_table, load_table
        from dsmc.tables import fresh_dir, row, schema, use_local

        use_local()
        ENV.reset(seed)
        self.mode = mode
        self.base = os.path.realpath(fresh_dir(name))
        self.live = os.path.join(self.base, "live")
        self.tmpl = os.path.join(self.base, "tmpl")
        self.c = os.path.join(self.live, "a/b/c")
        self.root_real = os.path.join(self.c, "root")
        self.link = os.path.join(self.c, "link")
        os.makedirs(self.c)
        t = create_table(self.root_real, schema())
        t.append_records([row(1), row(2)])
        t.append_records([row(3)])
        del t
        self.data_files = sorted(f for f in os.listdir(self.root_real + "/data") if f.endswith(".parquet"))
        if len(self.data_files) != 2:
            raise HarnessError(f"expected 2 data files, got {self.data_files}")
        orphan = self.root_real + "/data/orphan.parquet"
        shutil.copyfile(self.root_real + "/data/" + self.data_files[0], orphan)
        os.utime(orphan, (T0, T0))
        os.symlink("../outside", self.root_real + "/lnk_out")
        os.symlink("data", self.root_real + "/lnk_in")
        os.symlink("..", self.root_real + "/data/lnk_up")
        os.symlink("../../outside/secret", self.root_real + "/data/lnk_secret")
        os.symlink("root", self.link)
        old = T0 - 864000.0
        for rel, content in SENTINELS.items():
            p = os.path.join(self.live, rel)
            os.makedirs(os.path.dirname(p), exist_ok=True)
            with open(p, "wb") as f:
                f.write(content)
            os.utime(p, (old, old))
        ENV.clock = T0 + 7200.0  # "now": the orphan and every sentinel are older than the GC grace period
        self.table_path = self.root_real if mode == "direct" else self.link
        self.table = load_table(self.table_path)  # (makedirs of existing dirs only)
        self.storage = self.table.storage
        self.dfm = self.table.file_manager.data_file_manager
        shutil.copytree(self.live, self.tmpl, symlinks=True)
        # canonical root, by the harness' own walker, cross-checked
        self.R, _ = resolve([], _split(self.table_path))
        if "/" + "/".join(self.R) != os.path.realpath(self.table_path) or self.R != _split(self.root_real):
            raise HarnessError("canonical root mismatch")
        self.sent0 = self.sentinel_fp()
        self.root0 = self.root_fp()
        self._find_artifacts()
        self.restores = 0
        self.full_restores = 0

    # -- artifacts of the current snapshot (read without the library) ---------
    def _find_artifacts(self) -> None:
        import fastavro

        r = self.root_real
        with open(f"{r}/metadata.version-hint.text") as f:
            self.meta_rel = "metadata/" + f.read().strip()
        with open(f"{r}/{self.meta_rel}", "rb") as f:
            self.meta_bytes = f.read()
        md = json.loads(self.meta_bytes)
        cur = md["current-snapshot-id"] if "current-snapshot-id" in md else md["current_snapshot_id"]
        snap = [s for s in md["snapshots"] if s.get("snapshot-id", s.get("snapshot_id")) == cur][0]
        self.ml_key = "manifest-list" if "manifest-list" in snap else "manifest_list"
        self.cur_snapshot = cur
        self.ml_rel = snap[self.ml_key].lstrip("/")
        with open(f"{r}/{self.ml_rel}", "rb") as f:
            self.ml_bytes = f.read()
        rd = fastavro.reader(io.BytesIO(self.ml_bytes))
        self.ml_schema = rd.writer_schema
        self.ml_records = list(rd)
        self.mf_rel = self.ml_records[0]["manifest_path"].lstrip("/")
        with open(f"{r}/{self.mf_rel}", "rb") as f:
            self.mf_bytes = f.read()
        rd = fastavro.reader(io.BytesIO(self.mf_bytes))
        self.mf_schema = rd.writer_schema
        self.mf_records = list(rd)
        self.orig_ns = {}
        for rel in (self.mf_rel, self.ml_rel, self.meta_rel):
            st = os.stat(f"{r}/{rel}")
            self.orig_ns[rel] = (st.st_atime_ns, st.st_mtime_ns)
        if not self.mf_records or not self.mf_records[0]["data_file"].get("checksum"):
            raise HarnessError("expected a checksummed manifest entry")

    def tamper(self, which: str, cand: str) -> None:
        import copy

        import fastavro

        r = self.root_real
        if which == "entry":
            recs = copy.deepcopy(self.mf_records)
            recs[0]["data_file"]["file_path"] = cand
            bio = io.BytesIO()
            fastavro.writer(bio, self.mf_schema, recs)
            target, data = self.mf_rel, bio.getvalue()
        elif which == "manifest_path":
            recs = copy.deepcopy(self.ml_records)
            recs[0]["manifest_path"] = cand
            bio = io.BytesIO()
            fastavro.writer(bio, self.ml_schema, recs)
            target, data = self.ml_rel, bio.getvalue()
        else:
            md = json.loads(self.meta_bytes)
            for s in md["snapshots"]:
                if s.get("snapshot-id", s.get("snapshot_id")) == self.cur_snapshot:
                    s[self.ml_key] = cand
            target, data = self.meta_rel, json.dumps(md, indent=2).encode()
        with open(f"{r}/{target}", "wb") as f:
            f.write(data)
        self._tampered = target

    def untamper(self) -> None:
        """Put the original bytes and mtime back (cheaper than a full restore)."""
        t = self._tampered
        orig = {self.mf_rel: self.mf_bytes, self.ml_rel: self.ml_bytes, self.meta_rel: self.meta_bytes}[t]
        p = f"{self.root_real}/{t}"
        with open(p, "wb") as f:
            f.write(orig)
        os.utime(p, ns=self.orig_ns[t])

    # -- fingerprints -----------------------------------------------------------
    def sentinel_fp(self) -> Tuple:
        out: List[Tuple] = []
        stack = [self.live]
        n = len(self.live) + 1
        while stack:
            d = stack.pop()
            try:
                ents = sorted(os.scandir(d), key=lambda e: e.name)
            except OSError as e:
                out.append((d[n:], "unlistable", type(e).__name__))
                continue
            for e in ents:
                p = e.path
                if e.is_symlink():
                    out.append((p[n:], "l", os.readlink(p)))
                elif e.is_dir(follow_symlinks=False):
                    out.append((p[n:], "d"))
                    if p != self.root_real:
                        stack.append(p)
                else:
                    st = e.stat(follow_symlinks=False)
                    with open(p, "rb") as f:
                        out.append((p[n:], "f", st.st_mtime_ns, f.read()))
        out.sort()
        return tuple(out)

    def root_fp(self) -> Tuple:
        out: List[Tuple] = []
        n = len(self.root_real) + 1
        for d, dirs, files in os.walk(self.root_real):
            for x in dirs + files:
                p = os.path.join(d, x)
                if os.path.islink(p):
                    out.append((p[n:], "l", os.readlink(p)))
                elif os.path.isdir(p):
                    out.append((p[n:], "d"))
                else:
                    st = os.lstat(p)
                    out.append((p[n:], "f", st.st_size, st.st_mtime_ns))
        out.sort()
        return tuple(out)

    def root_names(self) -> frozenset:
        return frozenset(x[0] for x in self.root_fp())

    def restore(self, full: bool = False) -> None:
        """Bring the world back to the pristine template.  Fast path (only the
        root differs): drop entries the template does not have, re-copy changed
        or missing regular files; anything else -> wipe and re-copy everything."""
        self.restores += 1
        if not full:
            pristine = {x[0]: x for x in self.root0}
            cur = {x[0]: x for x in self.root_fp()}
            for name in sorted(set(cur) - set(pristine)):
                p = os.path.join(self.root_real, name)
                if os.path.dirname(name) in cur and os.path.dirname(name) not in pristine:
                    continue  # goes away with its parent
                if os.path.isdir(p) and not os.path.islink(p):
                    shutil.rmtree(p)
                else:
                    os.unlink(p)
            for name, want in pristine.items():
                have = cur.get(name)
                if have == want:
                    continue
                if want[1] == "f" and (have is None or have[1] == "f"):
                    shutil.copy2(os.path.join(self.tmpl, "a/b/c/root", name), os.path.join(self.root_real, name))
                else:
                    full = True
                    break
            if not full and self.root_fp() == self.root0:
                return
        self.full_restores += 1
        shutil.rmtree(self.live)
        shutil.copytree(self.tmpl, self.live, symlinks=True)

    def inside(self, comps: Sequence[str]) -> bool:
        return list(comps[: len(self.R)]) == self.R


# ---------------------------------------------------------------------------
# reference semantics (harness-owned; never calls into datashard)
# ---------------------------------------------------------------------------
def resolve(start: Sequence[str], todo_comps: Sequence[str]) -> Tuple[List[str], List[str]]:
    """Physical resolution: walk components left to right from the already
    canonical directory `start`; '..' pops the *resolved* path; a symlink
    component is replaced by its target; a missing component is kept (and a
    later '..' removes it lexically).  Returns (components, links traversed)."""
    comps = list(start)
    todo = list(reversed(todo_comps))
    links: List[str] = []
    hops = 0
    while todo:
        c = todo.pop()
        if c == "" or c == ".":
            continue
        if c == "..":
            if comps:
                comps.pop()
            continue
        cand = "/" + "/".join(comps + [c])
        try:
            tgt = os.readlink(cand)
        except OSError:
            comps.append(c)
            continue
        hops += 1
        if hops > 40:
            raise HarnessError(f"symlink loop resolving {todo_comps}")
        links.append(c)
        if tgt.startswith("/"):
            comps = []
        todo.extend(reversed(tgt.split("/")))
    return comps, links


def lexical(start: Sequence[str], todo_comps: Sequence[str]) -> List[str]:
    comps = list(start)
    for c in todo_comps:
        if c in ("", "."):
            continue
        if c == "..":
            if comps:
                comps.pop()
        else:
            comps.append(c)
    return comps


class Den:
    __slots__ = ("escapes", "cls", "links", "canon", "interp")

    def __init__(self, escapes: bool, cls: str, links: List[str], canon: str, interp: str):
        self.escapes, self.cls, self.links, self.canon, self.interp = escapes, cls, links, canon, interp


def denote(w: World, entry: str, label: str, path: str) -> Den:
    """Reference denotation of `path` for `entry` (label: 'grammar' or an abs_* label)."""
    literal = label.startswith("abs_") and entry in LITERAL_ABS
    if literal:
        comps, links = resolve([], path.split("/"))
        lex = lexical([], path.split("/"))
        chk = os.path.realpath(path)
    else:
        rel = path.lstrip("/")
        comps, links = resolve(w.R, rel.split("/"))
        lex = lexical(w.R, rel.split("/"))
        chk = os.path.realpath(os.path.join(w.table_path, rel))
    canon = "/" + "/".join(comps)
    if chk != canon:
        raise HarnessError(f"reference walker and os.path.realpath disagree on {path!r}: {canon} vs {chk}")
    esc = not w.inside(comps)
    both = False
    if label.startswith("abs_") and entry == "append_files":
        # validate_file_exists() is table-relative, the schema check honours a true
        # absolute path: the reference demands rejection when either reading escapes
        c2, _ = resolve([], path.split("/"))
        both = not w.inside(c2)
    sib = _split(w.c) + ["root_sibling"]
    if label.startswith("abs_"):
        cls = label if literal else label + "_as_table_relative"
    elif esc:
        if comps[: len(sib)] == sib:
            cls = "sibling_prefix"
        elif not w.inside(lex):
            cls = "dotdot_lexical"
        elif "lnk_out" in links or "lnk_secret" in links:
            cls = "symlink_out"
        else:
            cls = "symlink_up_dotdot"
    else:
        if comps == w.R:
            cls = "root_itself"
        elif links:
            cls = "inside_via_symlink"
        else:
            cls = "inside_plain"
    return Den(esc or both, cls, links, canon, "literal" if literal else "table_relative")


# ---------------------------------------------------------------------------
# seam listener: records every access the library issues during one call
# ---------------------------------------------------------------------------
_PROBES = ("exists", "getmtime", "getsize")
_IGNORED = ("write", "fsync", "close", "flock", "pq_close")


def _canon_entry(p: str) -> str:
    """Canonical location of the directory ENTRY p (final component not followed)."""
    p = os.path.abspath(p)
    return os.path.join(os.path.realpath(os.path.dirname(p)), os.path.basename(p))


class Recorder:
    def __init__(self, w: World):
        self.w = w
        self.acc: List[Dict[str, Any]] = []
        self.dirty = False
        self.probes = 0
        self.probes_outside = 0
        self._pre: Dict[int, bool] = {}

    def reset(self) -> None:
        self.acc = []
        self.dirty = False
        self.probes = 0
        self.probes_outside = 0
        self._pre.clear()

    def _in(self, canon: str) -> bool:
        return self.w.inside(_split(canon))

    def before(self, ev: Any) -> None:
        if ev.fn == "makedirs":
            self._pre[id(ev)] = os.path.isdir(ev.path)

    def after(self, ev: Any, res: Any, exc: Any) -> None:
        fn = ev.fn
        if fn in _IGNORED:
            return
        if fn in _PROBES:
            self.probes += 1
            if not self._in(os.path.realpath(ev.path)):
                self.probes_outside += 1
            return
        ok = exc is None
        items: List[Tuple[str, str]] = []
        if fn == "open":
            kind = "write" if ev.kind == "w" else "read"
            items = [(kind, os.path.realpath(ev.path))]
        elif fn in ("mkstemp", "NamedTemporaryFile"):
            items = [("write", os.path.realpath(ev.path if ev.path is not None else tempfile.gettempdir()))]
        elif fn == "replace":
            items = [("rename", _canon_entry(ev.path)), ("rename", _canon_entry(ev.path2))]
        elif fn in ("remove", "unlink"):
            items = [("delete", _canon_entry(ev.path))]
        elif fn == "walk":
            items = [("list", os.path.realpath(ev.path))]
        elif fn == "makedirs":
            existed = self._pre.pop(id(ev), False)
            self.dirty = True
            if existed:
                self.probes += 1
                if not self._in(os.path.realpath(ev.path)):
                    self.probes_outside += 1
                return
            items = [("write", os.path.realpath(ev.path))]
        elif fn == "pq_read":
            items = [("read", os.path.realpath(ev.path))]
        elif fn == "pq_open":
            if ev.path is None:
                return
            items = [("write", os.path.realpath(ev.path))]
        else:
            raise HarnessError(f"unclassified seam event {ev.mod}.{fn}")
        for kind, canon in items:
            if kind != "read" and kind != "list":
                self.dirty = True
            self.acc.append({"access": kind, "op": f"{ev.mod}.{fn}", "path": ev.path, "canonical": canon,
                             "inside": self._in(canon), "ok": ok})


# ---------------------------------------------------------------------------
# entry points
# ---------------------------------------------------------------------------
def _close(x: Any) -> None:
    try:
        x.close()
    except Exception:
        pass


def _e_open(meth: str) -> Callable[[World, str], Any]:
    def f(w: World, p: str) -> Any:
        h = getattr(w.storage, meth)(p)
        _close(h)
        return "<file>"

    return f


def _e_plain(meth: str, *extra: Any) -> Callable[[World, str], Any]:
    def f(w: World, p: str) -> Any:
        return getattr(w.storage, meth)(p, *extra)

    return f


def _e_create_lock(w: World, p: str) -> Any:
    lk = w.storage.create_lock(p, timeout=0.0)
    got = False
    try:
        got = lk.acquire()
    finally:
        lk.release()
    return {"acquired": got, "lock_file": getattr(getattr(lk, "lock", None), "lock_file", None)}


def _e_open_parquet_source(w: World, p: str) -> Any:
    h = w.dfm.open_parquet_source(p)
    _close(h)
    return "<file>"


def _e_write_data_file(w: World, p: str) -> Any:
    from dsmc.tables import schema

    w.dfm.write_data_file(file_path=p, records=[{"a": 1, "s": "c17"}], iceberg_schema=schema())
    return "written"


def _e_append_files(w: World, p: str) -> Any:
    from datashard import DataFile, FileFormat

    tx = w.table.new_transaction().begin()
    try:
        tx.append_files([DataFile(file_path=p, file_format=FileFormat.PARQUET, partition_values={},
                                  record_count=1, file_size_in_bytes=1)])
    finally:
        tx.rollback()
    return "queued"


def _e_scan(verify: Optional[bool]) -> Callable[[World, str], Any]:
    def f(w: World, p: str) -> Any:
        rows = w.table.scan(verify_checksums=verify) if verify is not None else w.table.scan()
        return {"rows": len(rows)}

    return f


def _e_gc(w: World, p: str) -> Any:
    return w.table.garbage_collect(GRACE_MS)


CALLS: Dict[str, Callable[[World, str], Any]] = {
    "read_file": _e_plain("read_file"),
    "open_file": _e_open("open_file"),
    "open_seekable": _e_open("open_seekable"),
    "read_json": _e_plain("read_json"),
    "exists": _e_plain("exists"),
    "list_files": _e_plain("list_files"),
    "get_size": _e_plain("get_size"),
    "get_modified_time": _e_plain("get_modified_time"),
    "write_file": _e_plain("write_file", b"c17"),
    "write_json": _e_plain("write_json", {"c": 17}),
    "delete_file": _e_plain("delete_file"),
    "makedirs": _e_plain("makedirs"),
    "create_lock": _e_create_lock,
    "get_arrow_path": lambda w, p: w.dfm._get_arrow_path(p),
    "open_parquet_source": _e_open_parquet_source,
    "write_data_file": _e_write_data_file,
    "append_files": _e_append_files,
    "scan_entry_verify": _e_scan(True),
    "scan_entry_noverify": _e_scan(False),
    "scan_manifest_path": _e_scan(None),
    "scan_manifest_list": _e_scan(None),
    "gc_marker": _e_gc,
    "gc_listing": _e_gc,
}
TAMPER = {"scan_entry_verify": "entry", "scan_entry_noverify": "entry", "scan_manifest_path": "manifest_path",
          "scan_manifest_list": "manifest_list"}
MARKER_REL = "metadata/inflight/x.inflight"


def _prepare(w: World, entry: str, cand: str) -> Optional[Callable[[], None]]:
    """Plant the candidate where the entry point will pick it up (harness-side
    file operations: not seen by the seams).  Returns an undo callable."""
    if entry in TAMPER:
        w.tamper(TAMPER[entry], cand)
        return w.untamper
    if entry == "gc_marker":
        p = os.path.join(w.root_real, MARKER_REL)
        with open(p, "wb") as f:
            f.write(json.dumps({"file_path": cand}).encode())
        os.utime(p, (ENV.clock, ENV.clock))
        return None
    if entry == "gc_listing":
        st = w.storage
        real = type(st).list_files

        def fake(prefix: str) -> List[str]:
            return list(real(st, prefix)) + [cand]

        st.list_files = fake  # type: ignore[method-assign]

        def undo() -> None:
            del st.list_files

        return undo
    return None


def _needs_restore(entry: str) -> bool:
    return entry == "gc_marker"


BENIGN = "data/zzz-not-there"


def _baseline_names(w: World, entry: str) -> frozenset:
    """Root tree after the same GC run with a harmless in-root string in place of
    the candidate: what 'the escaping string had no effect' looks like."""
    undo = _prepare(w, entry, BENIGN)
    try:
        CALLS[entry](w, BENIGN)
    finally:
        if undo:
            undo()
    names = w.root_names()
    w.restore()
    if "data/orphan.parquet" in names:
        raise HarnessError("baseline GC did not collect the aged orphan: the GC cases would be vacuous")
    return names


# ---------------------------------------------------------------------------
# one case
# ---------------------------------------------------------------------------
def _repro(w: World, entry: str, path: str) -> str:
    tp = "<scratch>/live/a/b/c/" + ("root" if w.mode == "direct" else "link")  # link is a symlink to root
    if entry in STORAGE_ENTRIES:
        arg = {"write_file": ", b'c17'", "write_json": ", {'c': 17}"}.get(entry, "")
        tail = ".acquire()" if entry == "create_lock" else ""
        return f"LocalStorageBackend({tp!r}).{entry}({path!r}{arg}){tail}"
    if entry in DFM_ENTRIES:
        m = "_get_arrow_path" if entry == "get_arrow_path" else entry
        return f"load_table({tp!r}).file_manager.data_file_manager.{m}({path!r})"
    if entry == "append_files":
        return f"load_table({tp!r}).new_transaction().begin().append_files([DataFile(file_path={path!r}, ...)])"
    if entry in TAMPER:
        what = {"entry": "the first manifest entry's data_file.file_path", "manifest_path": "the first manifest_path in "
                "the manifest list", "manifest_list": "manifest_list in the metadata json"}[TAMPER[entry]]
        return (f"rewrite {what} of the current snapshot to {path!r} (fastavro/json), then "
                f"load_table({tp!r}).scan({'verify_checksums=False' if entry.endswith('noverify') else ''})")
    if entry == "gc_marker":
        return f"write {MARKER_REL} = {{'file_path': {path!r}}}; load_table({tp!r}).garbage_collect({GRACE_MS})"
    return f"storage.list_files(prefix) additionally returns {path!r}; load_table({tp!r}).garbage_collect({GRACE_MS})"


def run_case(w: World, rec: Recorder, rep: Report, entry: str, label: str, path: str,
             baseline: Optional[frozenset]) -> None:
    den = denote(w, entry, label, path)
    rep.add("evaluations")
    rep.add("cases_" + ("escaping" if den.escapes else "inside"))
    if den.escapes or den.links:
        rep.nontrivial((entry, w.mode, path))
    undo = _prepare(w, entry, path)
    rec.reset()
    ENV.hooks.append(rec)
    raised: Optional[BaseException] = None
    ret: Any = None
    try:
        ret = CALLS[entry](w, path)
    except HarnessError:
        raise
    except Exception as e:  # noqa: BLE001 - any exception is a rejection
        raised = e
    finally:
        ENV.hooks.remove(rec)
        if undo:
            undo()
    key = {"entry": entry, "root": w.mode, "path_class": den.cls}
    detail = {"path": path.replace(w.base, "<scratch>"), "label": label, "reference_interpretation": den.interp, "reference_denotation":
              den.canon.replace(w.base, "<scratch>"), "canonical_root": "/".join([""] + w.R).replace(w.base, "<scratch>"),
              "escapes": den.escapes, "symlinks_traversed": den.links,
              "raised": repr(raised)[:300].replace(w.base, "<scratch>") if raised else None,
              "returned": repr(ret)[:200].replace(w.base, "<scratch>") if raised is None else None,
              "reproducer": _repro(w, entry, path)}
    # (1) accesses
    rep.add("accesses_checked", len(rec.acc))
    rep.add("metadata_probes_informational", rec.probes)
    rep.add("metadata_probes_outside_root_informational", rec.probes_outside)
    bad = [a for a in rec.acc if not a["inside"] and a["ok"]]
    rep.add("outside_attempts_that_failed_informational", sum(1 for a in rec.acc if not a["inside"] and not a["ok"]))
    if entry == "get_arrow_path" and raised is None:
        # the returned string is the path pyarrow will be asked to read
        rep.add("accesses_checked")
        canon = os.path.realpath(ret)
        if not w.inside(_split(canon)):
            bad.append({"access": "read", "op": "returned path handed to pyarrow", "path": ret, "canonical": canon,
                        "inside": False, "ok": True})
    if bad:
        kinds = "+".join(sorted({a["access"] for a in bad}))
        rep.violation({**key, "problem": "outside_access", "access": kinds},
                      {**detail, "outside_accesses": [{k: (v.replace(w.base, "<scratch>") if isinstance(v, str) else v)
                                                       for k, v in a.items()} for a in bad[:8]]})
    # (3) rejection
    if den.escapes:
        if raised is not None:
            rep.add("rejected")
            d = rep.cov.setdefault("rejected_by_exception_type", {})
            d[type(raised).__name__] = d.get(type(raised).__name__, 0) + 1
        elif baseline is not None:
            after = w.root_names()
            if after == baseline:
                rep.add("gc_escaping_string_ignored_without_error_informational")
            else:
                rep.violation({**key, "problem": "not_rejected"},
                              {**detail, "effect": {"missing_vs_baseline": sorted(baseline - after),
                                                    "extra_vs_baseline": sorted(after - baseline)}})
        else:
            rep.violation({**key, "problem": "not_rejected"}, detail)
    elif raised is not None:
        rep.add("inside_paths_that_raised_informational")
    if entry == "list_files" and raised is None:
        n = sum(1 for p in ret if os.path.isabs(p) or os.path.normpath(p).split("/")[0] == "..")
        rep.add("listing_results_escaping_informational", n)
    # (2) sentinel tree
    dirty = rec.dirty or _needs_restore(entry)
    if w.sentinel_fp() != w.sent0:
        now = {x[0]: x for x in w.sentinel_fp()}
        was = {x[0]: x for x in w.sent0}
        diff = sorted(k for k in set(now) | set(was) if now.get(k) != was.get(k))
        rep.violation({**key, "problem": "sentinel_changed"}, {**detail, "changed": diff[:10]})
        w.restore(full=True)
    elif dirty:
        w.restore()
    if len(rep.samples) < 2 and den.escapes and den.links:
        rep.sample({"entry": entry, "root": w.mode, **detail, "accesses": [
            {"access": a["access"], "op": a["op"], "inside": a["inside"], "ok": a["ok"]} for a in rec.acc[:6]]})


# ---------------------------------------------------------------------------
# worker / driver
# ---------------------------------------------------------------------------
HEAVY = tuple(e for e in TABLE_ENTRIES if e != "append_files")  # a scan / a collection per case


def depth_of(entry: str, tier: str) -> int:
    """Grammar depth per entry point: 4 everywhere in the thorough tier; the quick
    tier uses 3 for the storage / DataFileManager / append_files entry points and
    2 for the entry points that cost a whole scan or garbage collection per case."""
    if tier != "quick":
        return 4
    return 2 if entry in HEAVY else 3


def all_paths(w: World, depth: int) -> List[Tuple[str, str]]:
    g = grammar(depth)
    seen = set(g)
    out = [("grammar", p) for p in g]
    for p in EXTRAS:
        if p not in seen:
            seen.add(p)
            out.append(("grammar", p))
    out += abs_paths(w.c, w.data_files[0])
    return out


def n_paths(depth: int) -> int:
    g = set(grammar(depth))
    return len(g | set(EXTRAS)) + N_ABS


def run_chunk(payload: Tuple) -> Dict[str, Any]:
    from dsmc.localfs import install_local_seams

    entry, mode, tier, seed, k, nk, only = payload
    install_local_seams()
    rep = Report(PROP, tier, seed, "exploration")
    w = World(f"c17-{entry}-{mode}-{k}", mode, seed)
    rec = Recorder(w)
    depth = depth_of(entry, tier)
    paths = all_paths(w, depth)
    if len(paths) != n_paths(depth):
        raise HarnessError(f"path enumeration is not deterministic: {len(paths)} vs {n_paths(depth)}")
    mine = paths[k::nk]
    if only is not None:
        mine = [(lb, p) for lb, p in paths if p.replace(w.base, "<scratch>") == only]
        if not mine:
            raise HarnessError(f"replay: path {only!r} is not in the enumerated space")
    baseline = _baseline_names(w, entry) if entry in ("gc_marker", "gc_listing") else None
    for i, (label, path) in enumerate(mine):
        run_case(w, rec, rep, entry, label, path, baseline)
        if i % 500 == 499 and w.root_fp() != w.root0:
            raise HarnessError(f"{entry}/{mode}: root tree drifted without a recorded mutation (unseamed write?)")
    if w.root_fp() != w.root0 or w.sentinel_fp() != w.sent0:
        raise HarnessError(f"{entry}/{mode}: world not pristine at the end of the chunk")
    rep.add("world_restores", w.restores)
    rep.add("world_restores_full", w.full_restores)
    rep.add("chunks")
    shutil.rmtree(w.base, ignore_errors=True)
    return rep.part()



# ---------------------------------------------------------------------------
# S3 backend: the table root is a key prefix
# ---------------------------------------------------------------------------
S3_BUCKET = "bkt"
S3_COMPONENTS = ("..", ".", "", "data", "x", "secret", "root_sibling")
S3_PREFIXES = ("pre/root", "root")
S3_ENTRIES = ("read_file", "open_file", "open_seekable", "read_json", "exists", "list_files", "get_size",
              "get_modified_time", "write_file", "write_json", "delete_file", "write_file_cas",
              "get_arrow_path", "open_parquet_source", "write_data_file")
S3_EXTRAS = EXTRAS + ("/bkt/pre/outside/secret", "bkt/pre/outside/secret", "s3://bkt/pre/outside/secret",
                      "pre/root/../outside/secret", "../root/data/f", "pre/root/data/f", "data/f/../../../outside/secret",
                      "data/../../root_sibling/f", "..", "../", "../..", "./..", "data/..", "data/../..")


def s3_paths(depth: int) -> List[str]:
    out: Dict[str, None] = {}
    for n in range(1, depth + 1):
        for seq in itertools.product(S3_COMPONENTS, repeat=n):
            out["/".join(seq)] = None
            out["/" + "/".join(seq)] = None
    for e in S3_EXTRAS:
        out[e] = None
    return list(out)


def _s3_outside(prefix: str) -> Dict[str, bytes]:
    """Objects of the bucket that do not belong to the table (sibling prefixes, parents, string-prefix siblings)."""
    parent = prefix.rsplit("/", 1)[0] + "/" if "/" in prefix else ""
    return {parent + "outside/secret": b"S1", parent + "secret": b"S2", parent + "root_sibling/f": b"S3",
            parent + "root_sibling/data/secret": b"S4", "secret": b"S5", prefix: b"S6", prefix + "x": b"S7",
            parent + "outside/data/secret": b"S8", parent + "data/secret": b"S9", "outside/secret": b"S10",
            parent + "x": b"S11", parent + "data/f": b"S12"}


def run_s3_chunk(payload: Tuple) -> Dict[str, Any]:
    """Every path string x every S3 storage / data-file entry point x key prefix: every request the library sends
    names a key below '<prefix>/', and no object outside the prefix is created, changed or removed."""
    import pyarrow as pa
    import pyarrow.parquet as pq

    from datashard.data_operations import DataFileManager
    from datashard.storage_backend import S3StorageBackend
    from dsmc.fakes3 import Obj, S3World

    _tag, entry, prefix, tier, seed, only = payload
    rep = Report(PROP, tier, seed, "exploration")
    depth = 3 if tier == "quick" else 4
    paths = s3_paths(depth) if only is None else [only]
    buf = io.BytesIO()
    pq.write_table(pa.table({"id": [1]}), buf)
    parquet = buf.getvalue()
    outside = _s3_outside(prefix)
    inside = {prefix + "/data/f": parquet, prefix + "/data/x": b"{}", prefix + "/x": b"{}", prefix + "/secret": b"{}",
              prefix + "/metadata/m.json": b"{}"}
    with S3World(bucket=S3_BUCKET) as w:
        s3 = w.s3
        S = S3StorageBackend(bucket=S3_BUCKET, prefix=prefix)
        dfm = DataFileManager(None, S)  # the data-file manager only uses its storage backend
        from datashard import Schema
        schema = Schema(schema_id=1, fields=[{"id": 1, "name": "id", "type": "long", "required": True}])
        template = {k: Obj(v, T0) for k, v in {**outside, **inside}.items()}
        seen: List[Any] = []
        s3.gates = [lambda req: seen.append(req)]

        def call(p: str) -> Any:
            if entry in ("read_file", "read_json", "exists", "list_files", "get_size", "get_modified_time", "delete_file"):
                return getattr(S, entry)(p)
            if entry in ("open_file", "open_seekable"):
                f = getattr(S, entry)(p)
                try:
                    return f.read(4)
                finally:
                    _close(f)
            if entry == "write_file":
                return S.write_file(p, b"W")
            if entry == "write_json":
                return S.write_json(p, {"w": 1})
            if entry == "write_file_cas":
                return S.write_file_cas(p, b"W", None)
            if entry == "get_arrow_path":
                return dfm._get_arrow_path(p)
            if entry == "open_parquet_source":
                src = dfm.open_parquet_source(p)
                try:
                    return pq.read_table(src).num_rows
                finally:
                    _close(src)
            if entry == "write_data_file":
                return dfm.write_data_file(p, [{"id": 1}], schema).file_path
            raise HarnessError(entry)

        for p in paths:
            s3.load_state(template)
            del seen[:]
            try:
                out = ("ok", call(p))
            except HarnessError:
                raise
            except Exception as e:  # noqa
                out = ("raise", type(e).__name__)
            rep.add("evaluations")
            rep.add("s3_cases")
            if ".." in p.split("/"):
                rep.nontrivial(("s3", entry, prefix, p))
            detail = {"entry": entry, "prefix": prefix, "path": p, "outcome": repr(out)[:200],
                      "requests": [r.label() for r in seen][:8]}
            key = {"entry": entry, "root": "s3_prefix", "kind": None}
            bad = [r for r in seen if not r.key.startswith(prefix + "/")]
            rep.add("s3_requests_checked", len(seen))
            if bad:
                rep.violation({**key, "kind": "request_outside_prefix:" + bad[0].op}, detail)
                continue
            if entry == "get_arrow_path" and out[0] == "ok" and not str(out[1]).startswith(f"{S3_BUCKET}/{prefix}/"):
                rep.violation({**key, "kind": "arrow_path_outside_prefix"}, detail)
                continue
            now = {k: o.body for k, o in s3.objs.items() if not k.startswith(prefix + "/")}
            if now != outside:
                rep.violation({**key, "kind": "object_outside_prefix_changed"},
                              {**detail, "changed": sorted(set(now.items()) ^ set(outside.items()))[:4].__repr__()})
                continue
            if out[0] == "ok" and entry in ("read_file", "open_file", "open_seekable") and out[1] in set(outside.values()):
                rep.violation({**key, "kind": "outside_content_returned"}, detail)
                continue
            rep.add("s3_cases_raised" if out[0] == "raise" else "s3_cases_served_inside_prefix")
        s3.gates = []
    return rep.part()


# ---------------------------------------------------------------------------
# a path component that is re-pointed BETWEEN two calls on one handle
# ---------------------------------------------------------------------------
REPOINT_ENTRIES = ("read_file", "open_file", "get_size", "exists", "write_file", "delete_file", "list_files",
                   "get_arrow_path", "open_parquet_source", "write_data_file", "read_data_file")


def repoint_worker(payload: Tuple) -> Dict[str, Any]:
    """For every entry point: the call is made once while `data/sub` is an ordinary directory inside the root, then
    `data/sub` is replaced by a symlink to a directory outside the root, and the SAME handle is asked again with the
    same string.  Nothing a handle remembers about an earlier resolution may let the second call through."""
    import pyarrow as pa
    import pyarrow.parquet as pq

    from datashard import create_table, load_table
    from dsmc.tables import fresh_dir, row, schema, use_local

    tier, seed = payload
    rep = Report(PROP, tier, seed, "exploration")
    use_local()
    for entry in REPOINT_ENTRIES:
        for mode in MODES:
            ENV.reset(seed)
            base = os.path.realpath(fresh_dir(f"c17-repoint-{entry}-{mode}"))
            root = os.path.join(base, "a", "root")
            out_dir = os.path.join(base, "a", "outside", "sub")
            os.makedirs(os.path.dirname(root))
            t = create_table(root, schema())
            t.append_records([row(1)])
            os.makedirs(os.path.join(root, "data", "sub"))
            os.makedirs(out_dir)
            inside_f, outside_f = os.path.join(root, "data", "sub", "f.parquet"), os.path.join(out_dir, "f.parquet")
            pq.write_table(pa.table({"a": pa.array([7], pa.int64()), "s": ["in"]}), inside_f)
            pq.write_table(pa.table({"a": pa.array([666], pa.int64()), "s": ["OUTSIDE"]}), outside_f)
            secret = open(outside_f, "rb").read()
            if mode == "via_symlink":
                os.symlink("root", os.path.join(base, "a", "link"))
            h = load_table(root if mode == "direct" else os.path.join(base, "a", "link"))
            st, dfm = h.storage, h.file_manager.data_file_manager
            rel = "data/sub/f.parquet"

            def call() -> Any:
                if entry in ("read_file", "get_size", "exists", "delete_file"):
                    return getattr(st, entry)(rel)
                if entry == "list_files":
                    return sorted(st.list_files("data/sub"))
                if entry == "open_file":
                    f = st.open_file(rel)
                    try:
                        return f.read()
                    finally:
                        _close(f)
                if entry == "write_file":
                    return st.write_file(rel, b"W")
                if entry == "get_arrow_path":
                    return dfm._get_arrow_path(rel)
                if entry == "open_parquet_source":
                    src = dfm.open_parquet_source(rel)
                    try:
                        return pq.read_table(src).to_pylist()
                    finally:
                        _close(src)
                if entry == "read_data_file":
                    return dfm.read_data_file(rel).to_pylist()
                if entry == "write_data_file":
                    return dfm.write_data_file(rel, [{"a": 1, "s": "w"}], schema()).file_path
                raise HarnessError(entry)

            try:
                call()  # benign layout: whatever it answers, the handle has now seen this path
            except HarnessError:
                raise
            except Exception:
                pass
            if not os.path.isdir(os.path.join(root, "data", "sub")):
                raise HarnessError("benign layout damaged by the first call")
            shutil.rmtree(os.path.join(root, "data", "sub_real"), ignore_errors=True)
            os.rename(os.path.join(root, "data", "sub"), os.path.join(root, "data", "sub_real"))
            os.symlink("../../outside/sub", os.path.join(root, "data", "sub"))
            try:
                out: Any = ("ok", call())
            except HarnessError:
                raise
            except Exception as e:  # noqa
                out = ("raise", type(e).__name__)
            rep.add("evaluations")
            rep.add("repointed_component_cases")
            rep.nontrivial(("repoint", entry, mode))
            probs = []
            now = open(outside_f, "rb").read() if os.path.exists(outside_f) else None
            if now != secret or sorted(os.listdir(out_dir)) != ["f.parquet"]:
                probs.append("a file outside the root was written / deleted / created")
            if out[0] == "ok":
                r = out[1]
                leaked = (r == secret or (isinstance(r, list) and any(isinstance(x, dict) and x.get("a") == 666 for x in r))
                          or (entry == "list_files" and r) or (entry == "get_size" and r == len(secret))
                          or (entry == "exists" and r is True))
                if entry == "get_arrow_path":
                    leaked = not (os.path.realpath(str(r)) + "/").startswith(os.path.realpath(root) + "/")
                if leaked:
                    probs.append("the call answered from the directory outside the root")
                elif entry not in ("exists",):
                    probs.append("an escaping path was accepted without an error")
            if probs:
                rep.violation({"entry": entry, "root": mode, "path_class": "component_repointed_between_calls",
                               "access": "any", "problem": probs[0][:60]},
                              {"path": rel, "outcome": repr(out)[:200], "problems": probs})
            shutil.rmtree(base, ignore_errors=True)
    return rep.part()


def run(tier: str, seed: int) -> Report:
    rep = Report(PROP, tier, seed, "exploration")
    npaths = {e: n_paths(depth_of(e, tier)) for e in ENTRIES}
    payloads = []
    for e in ENTRIES:
        nk = max(1, -(-npaths[e] // (CHUNK // 2 if e in HEAVY else CHUNK)))
        payloads += [(e, m, tier, seed, k, nk, None) for m in MODES for k in range(nk)]
    payloads.sort(key=lambda p: p[0] not in HEAVY)  # longest jobs first
    if seed:
        import random

        random.Random(seed).shuffle(payloads)
    for part in pmap("checks.c17", "run_chunk", payloads):
        rep.merge(part)
    s3_payloads = [("s3", e, pfx, tier, seed, None) for e in S3_ENTRIES for pfx in S3_PREFIXES]
    for part in pmap("checks.c17", "run_s3_chunk", s3_payloads):
        rep.merge(part)
    for part in pmap("checks.c17", "repoint_worker", [(tier, seed)]):
        rep.merge(part)
    n_s3 = len(s3_paths(3 if tier == "quick" else 4)) * len(s3_payloads) + len(REPOINT_ENTRIES) * len(MODES)
    rep.cov["s3_path_strings"] = len(s3_paths(3 if tier == "quick" else 4))
    rep.cov["s3_entry_points"] = list(S3_ENTRIES)
    expect = sum(npaths.values()) * len(MODES) + n_s3
    n = max(npaths.values())
    rep.cov["paths"] = n
    rep.cov["paths_per_entry_point"] = dict(npaths)
    rep.cov["entry_points"] = len(ENTRIES)
    rep.cov["root_modes"] = len(MODES)
    rep.cov["expected_cases"] = expect
    rep.cov["exhaustive"] = rep.cov.get("evaluations", 0) == expect and not rep.caps
    if rep.cov.get("evaluations", 0) != expect:
        raise HarnessError(f"enumerated {rep.cov.get('evaluations')} cases, expected {expect}")
    depth = max(depth_of(e, tier) for e in ENTRIES)
    dnote = "" if tier != "quick" else (
        f"; quick tier: depth 2 ({n_paths(2)} strings) for the entry points that cost a scan or a collection per case "
        f"({', '.join(HEAVY)})")
    rep.cov["rule"] = (
        f"every string of the grammar: all sequences of 1..{depth} components over {list(COMPONENTS)} joined with '/', "
        f"with and without a leading '/', plus '//'-joined and '//'-prefixed forms for sequences shorter than {depth}, "
        f"plus {len(EXTRAS)} hand-listed sibling-prefix / file-symlink / re-entrant spellings and {N_ABS} true absolute paths "
        f"inside and outside the root ({n} distinct strings) x {len(ENTRIES)} entry points x root reached directly / "
        f"through a symlink{dnote}; a case is non-trivial when its reference denotation leaves the canonical root or passes "
        "through a symlink inside the table (distinct = (entry point, root mode, path string))")
    rep.assumptions += [
        "reference denotation: leading slashes stripped ('/x' is documented as table-relative), joined onto the root, "
        "'..' and symlinks resolved physically by the harness' own walker (cross-checked against os.path.realpath on "
        "every case); inside iff equal to or component-wise below the canonical root",
        "true absolute paths: the literal path is the reference for _get_arrow_path / open_parquet_source / scan with "
        "verify_checksums=False (documented: honoured only inside the root); every other entry point treats them as "
        "table-relative (they then denote a non-existent location inside the root: containment, no rejection demanded); "
        "append_files must reject when either reading escapes",
        "existence / size / mtime probes (os.path.exists, getsize, getmtime, makedirs of an already existing directory) "
        "on outside paths are counted, not judged: the statement lists content read, write, delete, rename, listing",
        "a failed attempt (open/replace/... raising) on an outside path is counted, not judged; only effected accesses are",
        "_get_arrow_path performs no I/O: the string it returns is judged as the path that will be read",
        "any exception counts as rejection (types are tallied in rejected_by_exception_type); what a rejected or an "
        "inside call returns/raises is otherwise not judged",
        "garbage_collect: an escaping marker payload or listing entry need not abort the collection - it is accepted "
        "when the run raises OR when the set of files left in the root equals that of the same run with a harmless "
        "in-root string (the string was ignored / refused at the storage layer, not resolved to another file); such "
        "cases are tallied in gc_escaping_string_ignored_without_error_informational",
        "listing seam: the injected string is appended to the result of every list_files call of the collection "
        "(in-flight markers, data, manifests)",
        "symlink layout is fixed (lnk_out, lnk_in, data/lnk_up, data/lnk_secret, link->root); races between check and "
        "use (a link re-pointed mid-call) are out of scope",
        "S3 backend: the root is the key prefix of the backend; keys are opaque strings, so '<prefix>/../x' is a key "
        "below the prefix (it names no other object) - what is judged is that every request names a key starting with "
        "'<prefix>/', that no object outside the prefix changes and that no outside content is returned",
        "Transaction.delete_files is not an entry point of this check",
    ]
    return rep


def replay(case: Dict[str, Any]) -> Dict[str, Any]:
    key, det = case["key"], case["detail"]
    if key.get("root") == "s3_prefix":
        part = run_s3_chunk(("s3", det["entry"], det["prefix"], case.get("tier", "quick"), case.get("seed", 0), det["path"]))
        hit = [v for v in part["violations"].values() if v["key"] == key]
        return {"violated": bool(hit), "matching": hit[:1]}
    part = run_chunk((key["entry"], key["root"], case.get("tier", "quick"), case.get("seed", 0), 0, 1, det["path"]))
    hit = [v for v in part["violations"].values() if v["key"] == key]
    return {"violated": bool(hit), "matching": hit[:1]}
