"""Evidence, violations, known findings, replay files, worker pool."""
from __future__ import annotations

import atexit
import hashlib
import json
import os
import shutil
import sys
import time
import traceback
from typing import Any, Callable, Dict, Iterable, List, Optional

VERIF = os.path.dirname(os.path.dirname(os.path.abspath(__file__)))
# overridable so that evaluation runs against deliberately broken trees do not clobber the real evidence
EVIDENCE_DIR = os.environ.get("DSMC_EVIDENCE_DIR") or os.path.join(VERIF, "evidence")
REPLAY_DIR = os.environ.get("DSMC_REPLAY_DIR") or os.path.join(VERIF, "replays")
KNOWN = os.path.join(VERIF, "known_findings.jsonl")

from .env import REAL_TIME as _REAL_TIME  # captured before env.install() patches the time module


class HarnessError(Exception):
    """The harness itself misbehaved (nondeterminism, hang, divergence).
    Exit status 2 - never reported as a VIOLATION."""


def jsonable(x: Any) -> Any:
    if isinstance(x, dict):
        return {str(k): jsonable(v) for k, v in x.items()}
    if isinstance(x, (list, tuple, set, frozenset)):
        xs = list(x)
        if isinstance(x, (set, frozenset)):
            xs = sorted(xs, key=repr)
        return [jsonable(v) for v in xs]
    if isinstance(x, (str, int, bool)) or x is None:
        return x
    if isinstance(x, float):
        return x if x == x and abs(x) != float("inf") else repr(x)
    if isinstance(x, bytes):
        return {"bytes_hex": x[:64].hex(), "len": len(x)}
    return repr(x)


def load_known() -> List[Dict[str, Any]]:
    out = []
    if os.path.exists(KNOWN):
        with open(KNOWN) as f:
            for line in f:
                line = line.strip()
                if line and not line.startswith("#") and not line.startswith("fixed:"):
                    out.append(json.loads(line))
    return out


def _subset(a: Dict[str, Any], b: Dict[str, Any]) -> bool:
    return all(k in b and jsonable(b[k]) == v for k, v in a.items())


class Report:
    def __init__(self, prop: str, tier: str, seed: int, level: str):
        self.prop, self.tier, self.seed, self.level = prop, tier, seed, level
        self.t0 = _REAL_TIME()
        self.cov: Dict[str, Any] = {}
        self.samples: List[Any] = []
        self.assumptions: List[str] = []
        self.violations: Dict[str, Dict[str, Any]] = {}
        self.caps: List[str] = []
        self.notes: List[str] = []
        self.distinct: set = set()
        self.max_samples = 6

    # ---- counters ----------------------------------------------------------
    def add(self, k: str, n: int = 1) -> None:
        self.cov[k] = self.cov.get(k, 0) + n

    def setmax(self, k: str, n: int) -> None:
        self.cov[k] = max(self.cov.get(k, n), n)

    def sample(self, s: Any, force: bool = False) -> None:
        if force or len(self.samples) < self.max_samples:
            self.samples.append(jsonable(s))

    def nontrivial(self, key: Any) -> None:
        self.distinct.add(key if isinstance(key, (str, int, tuple)) else json.dumps(jsonable(key), sort_keys=True))

    def violation(self, key: Dict[str, Any], detail: Dict[str, Any]) -> None:
        """`key` is the structured identity of the failing scenario (what the
        known-findings file matches on); `detail` carries the replay payload."""
        k = json.dumps(jsonable(key), sort_keys=True)
        if k not in self.violations:
            self.violations[k] = {"key": jsonable(key), "detail": jsonable(detail), "count": 1}
        else:
            self.violations[k]["count"] += 1

    def merge(self, part: Dict[str, Any]) -> None:
        """Merge a worker's partial result (dict produced by `Report.part()`)."""
        for k, v in part.get("cov", {}).items():
            if isinstance(v, bool):
                self.cov[k] = self.cov.get(k, True) and v
            elif isinstance(v, (int, float)):
                if k.startswith("max_"):
                    self.cov[k] = max(self.cov.get(k, v), v)
                elif k.startswith("min_"):
                    self.cov[k] = min(self.cov.get(k, v), v)
                else:
                    self.cov[k] = self.cov.get(k, 0) + v
            elif isinstance(v, list):
                self.cov.setdefault(k, [])
                for x in v:
                    if x not in self.cov[k]:
                        self.cov[k].append(x)
            elif isinstance(v, dict):
                d = self.cov.setdefault(k, {})
                for kk, vv in v.items():
                    d[kk] = d.get(kk, 0) + vv if isinstance(vv, (int, float)) else vv
            else:
                self.cov[k] = v
        for s in part.get("samples", []):
            self.sample(s)
        for k, v in part.get("violations", {}).items():
            if k in self.violations:
                self.violations[k]["count"] += v["count"]
            else:
                self.violations[k] = v
        for c in part.get("caps", []):
            if c not in self.caps:
                self.caps.append(c)
        for d in part.get("distinct", []):
            self.distinct.add(d)
        for n in part.get("notes", []):
            if n not in self.notes:
                self.notes.append(n)

    def part(self) -> Dict[str, Any]:
        return {"cov": self.cov, "samples": self.samples, "violations": self.violations,
                "caps": self.caps, "distinct": sorted(self.distinct, key=repr), "notes": self.notes}

    # ---- finish ------------------------------------------------------------
    def finish(self) -> int:
        os.makedirs(EVIDENCE_DIR, exist_ok=True)
        known = [k for k in load_known() if k.get("property") == self.prop and not k.get("fixed")]
        new, matched = [], {}
        for k, v in self.violations.items():
            hit = None
            for i, kf in enumerate(known):
                if _subset(kf["key"], v["key"]):
                    hit = i
                    break
            if hit is None:
                new.append(v)
            else:
                matched.setdefault(hit, []).append(v)
        cov = dict(self.cov)
        cov.setdefault("evaluations", cov.get("executions", 0))
        cov["distinct_nontrivial"] = max(len(self.distinct), cov.get("distinct_nontrivial", 0))
        cov["samples"] = self.samples or [{"note": "no sample recorded"}]
        cov["caps_hit"] = self.caps
        cov["known_findings_observed"] = sum(len(v) for v in matched.values())
        if self.notes:
            cov["notes"] = self.notes
        ev = {
            "property_id": self.prop, "tier": self.tier, "seed": self.seed, "level": self.level,
            "coverage": cov, "assumptions": self.assumptions,
            "wall_s": round(_REAL_TIME() - self.t0, 2), "violations": len(new),
        }
        with open(os.path.join(EVIDENCE_DIR, f"{self.prop}.json"), "w") as f:
            json.dump(jsonable(ev), f, indent=1, sort_keys=True)
            f.write("\n")
        for i, vs in sorted(matched.items()):
            print(f"KNOWN-FINDING: property={self.prop} {known[i].get('what', known[i].get('note', ''))} "
                  f"[{len(vs)} scenario(s) matched]")
        rc = 0
        if new:
            os.makedirs(REPLAY_DIR, exist_ok=True)
            for v in new[:20]:
                dig = hashlib.md5(json.dumps(v["key"], sort_keys=True).encode()).hexdigest()[:10]
                path = os.path.join(REPLAY_DIR, f"{self.prop}-{dig}.json")
                with open(path, "w") as f:
                    json.dump({"property": self.prop, "tier": self.tier, "seed": self.seed, **v}, f, indent=1)
                print(f"VIOLATION property={self.prop} replay={path}")
                print("  key:", json.dumps(v["key"], sort_keys=True)[:600])
            if len(new) > 20:
                print(f"  ... and {len(new) - 20} more violation keys")
            rc = 1
        brief = {k: v for k, v in cov.items() if isinstance(v, (int, float, bool)) }
        print(f"[{self.prop}] tier={self.tier} seed={self.seed} wall={ev['wall_s']}s "
              f"violations={len(new)} known={cov['known_findings_observed']} caps={self.caps} {brief}")
        return rc


# ---------------------------------------------------------------------------
# scratch space
# ---------------------------------------------------------------------------
_scratch: List[Optional[str]] = [None]


def scratch_root() -> str:
    if _scratch[0] is None:
        base = os.environ.get("DSMC_SCRATCH")
        if base:
            p = os.path.join(base, f"w{os.getpid()}")
        else:
            shm = "/dev/shm" if os.path.isdir("/dev/shm") else "/tmp"
            p = os.path.join(shm, f"dsmc-{os.getpid()}")
            os.environ["DSMC_SCRATCH"] = p
            atexit.register(lambda: shutil.rmtree(p, ignore_errors=True))
        os.makedirs(p, exist_ok=True)
        _scratch[0] = p
    return _scratch[0]


# ---------------------------------------------------------------------------
# worker pool (spawned processes; each installs the environment itself)
# ---------------------------------------------------------------------------
def _worker_entry(args):
    modname, fname, payload = args
    try:
        import importlib

        from dsmc.env import install

        install()
        mod = importlib.import_module(modname)
        return ("ok", getattr(mod, fname)(payload))
    except HarnessError as e:
        return ("harness", f"{e}\n{traceback.format_exc()}")
    except BaseException as e:  # noqa
        return ("error", f"{type(e).__name__}: {e}\n{traceback.format_exc()}")


def pmap(modname: str, fname: str, payloads: List[Any], workers: Optional[int] = None,
         on_result: Optional[Callable[[Any, Any], None]] = None) -> List[Any]:
    """Run `modname.fname(payload)` for every payload in worker processes."""
    scratch_root()
    workers = workers or int(os.environ.get("DSMC_WORKERS", "0")) or min(16, os.cpu_count() or 4)
    workers = max(1, min(workers, len(payloads)))
    results: List[Any] = [None] * len(payloads)
    if workers == 1 or os.environ.get("DSMC_INLINE"):
        import importlib

        mod = importlib.import_module(modname)
        for i, p in enumerate(payloads):
            results[i] = getattr(mod, fname)(p)
            if on_result:
                on_result(p, results[i])
        return results
    import multiprocessing as mp
    from concurrent.futures import ProcessPoolExecutor, as_completed

    ctx = mp.get_context("spawn")
    ex = ProcessPoolExecutor(max_workers=workers, mp_context=ctx)
    try:
        futs = {ex.submit(_worker_entry, (modname, fname, p)): i for i, p in enumerate(payloads)}
        for fut in as_completed(futs):
            i = futs[fut]
            st, val = fut.result()
            if st == "harness":
                raise HarnessError(f"worker payload {payloads[i]!r}: {val}")
            if st == "error":
                raise HarnessError(f"worker crashed on payload {payloads[i]!r}: {val}")
            results[i] = val
            if on_result:
                on_result(payloads[i], val)
    except BaseException:
        # do not wait for the remaining payloads of a run that has already failed
        procs = list(getattr(ex, "_processes", {}).values())
        ex.shutdown(wait=False, cancel_futures=True)
        for pr in procs:
            try:
                pr.terminate()
            except Exception:  # noqa
                pass
        raise
    ex.shutdown(wait=True)
    return results


def progress(msg: str) -> None:
    if os.environ.get("DSMC_PROGRESS"):
        print(f"  .. {msg}", file=sys.stderr, flush=True)
