"""Small shared helpers to build tables for the drivers."""
from __future__ import annotations

import os
import shutil
from typing import Any, Dict, List, Optional

from .env import ENV
from .report import scratch_root

SCHEMA_FIELDS = [
    {"id": 1, "name": "a", "type": "long", "required": True},
    {"id": 2, "name": "s", "type": "string", "required": False},
]


def schema(schema_id: int = 1, fields: Optional[List[Dict[str, Any]]] = None):
    from datashard import Schema

    return Schema(schema_id=schema_id, fields=[dict(f) for f in (fields or SCHEMA_FIELDS)])


def row(i: int) -> Dict[str, Any]:
    return {"a": i, "s": f"r{i}"}


def fresh_dir(name: str) -> str:
    p = os.path.join(scratch_root(), name)
    shutil.rmtree(p, ignore_errors=True)
    os.makedirs(p, exist_ok=True)
    return p


def use_local() -> None:
    os.environ["DATASHARD_STORAGE_TYPE"] = "local"


def age_tree(root: str, seconds: float) -> None:
    """Make every file under root look `seconds` older (mtime)."""
    for r, _d, fs in os.walk(root):
        for f in fs:
            p = os.path.join(r, f)
            try:
                st = os.stat(p)
                os.utime(p, (st.st_mtime - seconds, st.st_mtime - seconds))
            except OSError:
                pass
