"""C10 - the version pointer is only a hint: losing or corrupting it never loses data.

Exhaustive enumeration (no sampling) of

    table histories  x  byte-level pointer grammar  x  follow-up sequences  x  backends

against a reference model.  A history is built once through the real API (with
the failure injected at the pointer write where the history needs one), frozen
as a template and restored byte-for-byte (incl. mtimes) for every case.  The
model of a history is what was COMMITTED in it (the pointer at build time and
the metadata-log chain behind it), extracted with the independent reader:
table uuid, persisted schema, snapshot ids, rows of every snapshot, the
committed metadata file names; every metadata file on disk outside that chain
is an orphan (never committed).

Per case: restore, plant the pointer content, run the follow-up ops - every op
opens the table with a FRESH handle (`load_table`, or `create_table` with a
DIFFERENT schema), optionally appends one row or runs `garbage_collect(0)` over
aged files - then re-open with another fresh handle and read everything through
the library (uuid, schema, snapshots(), scan()) and through the independent
reader.  The first deviation from the model is the violation (its position in
the follow-up is part of the key), later deviations are listed as consequences.

quick: local + CAS-S3, single follow-up ops; thorough: local + CAS-S3 + non-CAS S3,
every follow-up sequence of one or two ops.
"""
from __future__ import annotations

import contextlib
import hashlib
import json
import os
import random
import re
import shutil
from typing import Any, Callable, Dict, Iterator, List, Optional, Tuple

from dsmc import reader
from dsmc.env import ENV
from dsmc.report import HarnessError, Report, pmap
from dsmc.tables import fresh_dir, row, schema

PROP = "C10"
LEVEL = "exploration"
HINT = reader.HINT
BUCKET = "bkt"
LOC = "tbl"  # logical table location on S3
OLD_S = 7200.0
DIR = "<directory>"  # sentinel: a directory in place of the pointer file
OTHER_FIELDS = [
    {"id": 1, "name": "x", "type": "string", "required": False},
    {"id": 2, "name": "y", "type": "double", "required": False},
    {"id": 3, "name": "a", "type": "long", "required": False},
]

HISTORIES: Dict[str, str] = {
    "h1": "create + 3 clean appends (v0..v3)",
    "h2": "h1 + an append whose pointer write failed (local: OSError -> rollback deleted its data file; S3: ambiguous "
          "failure that did not land, files kept): orphan v4 metadata file",
    "h3": "h1 + a committer that died at the pointer write: intact orphan v4 (data, manifests, in-flight markers kept); "
          "local: plus the torn temp file of a metadata write (.tmp.*.v5-*.metadata.json)",
    "h4": "creation interrupted before the pointer: only v0-*.metadata.json, no pointer",
    "h5": "legacy layout: h1 with plain vN.metadata.json names and pointer '3'",
    "h6": "h1 + an append whose first attempt lost the commit point (conflict after its metadata file was written) and "
          "whose retry committed: orphan v4-a next to the committed v4-b",
    "h7": "create + 10 clean appends (v0..v10: version order differs from lexicographic order)",
}
OPS: List[Tuple[str, str]] = [("load", "none"), ("create", "none"), ("load", "append"), ("create", "append"),
                              ("load", "gc"), ("create", "gc")]
BACKENDS = {"quick": ["local", "s3cas"], "thorough": ["local", "s3cas", "s3nocas"]}
DEPTH = {"quick": 1, "thorough": 2}


def op_name(op: Tuple[str, str]) -> str:
    return op[0] if op[1] == "none" else f"{op[0]}+{op[1]}"


def followups(depth: int) -> List[Tuple[Tuple[str, str], ...]]:
    out: List[Tuple[Tuple[str, str], ...]] = [(o,) for o in OPS]
    if depth >= 2:
        out += [(a, b) for a in OPS for b in OPS]
    return out


# ---------------------------------------------------------------------------
# stores: the table's files, snapshot / restore / plant
# ---------------------------------------------------------------------------
class LocalStore:
    backend = "local"

    def __init__(self, tag: str):
        self.base = fresh_dir(f"c10-{tag}")
        self.loc = os.path.join(self.base, "t")

    def open(self) -> None:
        os.environ["DATASHARD_STORAGE_TYPE"] = "local"

    def close(self) -> None:
        shutil.rmtree(self.base, ignore_errors=True)

    def snapshot(self) -> Dict[str, Any]:
        files: Dict[str, Tuple[bytes, int]] = {}
        dirs: List[str] = []
        for r, ds, fs in os.walk(self.loc):
            for d in ds:
                dirs.append(os.path.relpath(os.path.join(r, d), self.loc))
            for f in fs:
                p = os.path.join(r, f)
                with open(p, "rb") as fh:
                    files[os.path.relpath(p, self.loc)] = (fh.read(), os.stat(p).st_mtime_ns)
        return {"files": files, "dirs": sorted(dirs)}

    def restore(self, snap: Optional[Dict[str, Any]]) -> None:
        shutil.rmtree(self.loc, ignore_errors=True)
        os.makedirs(self.loc)
        if not snap:
            return
        for d in snap["dirs"]:
            os.makedirs(os.path.join(self.loc, d), exist_ok=True)
        for rel, (body, mt) in snap["files"].items():
            p = os.path.join(self.loc, rel)
            os.makedirs(os.path.dirname(p), exist_ok=True)
            with open(p, "wb") as fh:
                fh.write(body)
            os.utime(p, ns=(mt, mt))

    def put(self, rel: str, body: bytes) -> None:
        p = os.path.join(self.loc, rel)
        os.makedirs(os.path.dirname(p), exist_ok=True)
        with open(p, "wb") as fh:
            fh.write(body)

    def rename(self, a: str, b: str) -> None:
        os.replace(os.path.join(self.loc, a), os.path.join(self.loc, b))

    def plant(self, content: Any) -> None:
        p = os.path.join(self.loc, HINT)
        if os.path.isdir(p):
            shutil.rmtree(p)
        elif os.path.exists(p):
            os.remove(p)
        if content is None:
            return
        if content == DIR:
            os.makedirs(p)
            return
        with open(p, "wb") as fh:
            fh.write(content)

    def view(self) -> Any:
        return reader.LocalView(self.loc)

    def age(self) -> None:
        """Every file looks OLD_S older than the (virtual) now; relative order kept."""
        ps = []
        for r, _d, fs in os.walk(self.loc):
            for f in fs:
                p = os.path.join(r, f)
                ps.append((os.stat(p).st_mtime_ns, p))
        base = ENV.clock - OLD_S - 1.0
        for i, (_mt, p) in enumerate(sorted(ps)):
            t = base + i * 1e-4
            os.utime(p, (t, t))


class S3Store:
    def __init__(self, cas: bool):
        from dsmc.fakes3 import S3World

        self.backend = "s3cas" if cas else "s3nocas"
        self.world = S3World(bucket=BUCKET, cas=cas)
        self.loc = LOC

    def open(self) -> None:
        self.world.__enter__()

    def close(self) -> None:
        self.world.__exit__(None, None, None)

    def _k(self, rel: str) -> str:
        return f"{LOC}/{rel}"

    def snapshot(self) -> Dict[str, Any]:
        # a dead process' lock object is assumed to have expired long ago: not part of a history
        return {"objs": {k: o for k, o in self.world.s3.objs.items() if not k.startswith(self._k(".locks/"))}}

    def restore(self, snap: Optional[Dict[str, Any]]) -> None:
        s3 = self.world.s3
        s3.gates, s3.after = [], []
        s3.load_state(dict(snap["objs"]) if snap else {})

    def put(self, rel: str, body: bytes) -> None:
        from dsmc.fakes3 import Obj

        self.world.s3.objs[self._k(rel)] = Obj(body, ENV.clock)

    def rename(self, a: str, b: str) -> None:
        objs = self.world.s3.objs
        objs[self._k(b)] = objs.pop(self._k(a))

    def plant(self, content: Any) -> None:
        self.world.s3.objs.pop(self._k(HINT), None)
        if content is None:
            return
        if content == DIR:
            raise HarnessError("a directory in place of the pointer exists only on the local backend")
        self.put(HINT, content)

    def view(self) -> Any:
        return reader.S3View(self.world.s3, LOC)

    def age(self) -> None:
        for k in list(self.world.s3.objs):
            self.world.s3.age(k, OLD_S + 1.0)


def make_store(backend: str, tag: str) -> Any:
    if backend == "local":
        return LocalStore(tag)
    return S3Store(cas=(backend == "s3cas"))


# ---------------------------------------------------------------------------
# histories
# ---------------------------------------------------------------------------
class _Skip(Exception):
    pass


class _Crash(BaseException):
    """The committing process dies here (not an Exception: no handler of the library runs for it)."""


@contextlib.contextmanager
def pointer_write_hook(hook: Callable[[], None]) -> Iterator[None]:
    """`hook()` runs immediately before every write of the pointer file, on every backend."""
    import datashard.storage_backend as sb

    saved = []

    def wrap(cls: Any, name: str) -> None:
        orig = getattr(cls, name)

        def w(self: Any, path: str, *a: Any, **k: Any) -> Any:
            if path == HINT:
                hook()
            return orig(self, path, *a, **k)

        setattr(cls, name, w)
        saved.append((cls, name, orig))

    wrap(sb.LocalStorageBackend, "write_file")
    wrap(sb.S3StorageBackend, "write_file")
    wrap(sb.S3StorageBackend, "write_file_cas")
    try:
        yield
    finally:
        for cls, name, orig in saved:
            setattr(cls, name, orig)


def _append(t: Any, i: int) -> None:
    if t.append_records([row(i)]) is not True:
        raise HarnessError("template append did not report success")


def _md_names(store: Any) -> List[str]:
    return [n for _v, n in reader.metadata_files(store.view())]


def build_history(store: Any, hid: str, seed: int) -> Dict[str, Any]:
    """Build history `hid` through the real API; returns {"snap", "clock", "tip"} (tip = committed metadata file)."""
    from datashard import create_table, load_table

    ENV.reset(seed)
    ENV.set_actor("tpl")
    store.restore(None)
    snap_at_crash: List[Any] = []
    fired: List[int] = []

    def crash() -> None:
        if not fired:
            fired.append(1)
            snap_at_crash.append(store.snapshot())
            raise _Crash()

    if hid == "h4":
        with pointer_write_hook(crash):
            try:
                create_table(store.loc, schema())
            except _Crash:
                pass
        if not snap_at_crash:
            raise HarnessError("h4: creation never reached the pointer write")
        store.restore(snap_at_crash[0])
        names = _md_names(store)
        if len(names) != 1 or store.view().get(HINT) is not None:
            raise HarnessError(f"h4: unexpected residue {names}")
        return {"snap": store.snapshot(), "clock": ENV.clock, "tip": names[0]}

    t = create_table(store.loc, schema())
    for i in range(10 if hid == "h7" else 3):
        _append(t, i)
    ptr = store.view().get(HINT)
    if ptr is None:
        raise HarnessError("no pointer after the clean commits")
    tip = ptr.decode()
    before = _md_names(store)

    if hid == "h2":
        def fail() -> None:
            if not fired:
                fired.append(1)
                raise OSError("injected: pointer write failed")

        with pointer_write_hook(fail):
            try:
                load_table(store.loc).append_records([row(7)])
                raise HarnessError("h2: the append with a failing pointer write reported success")
            except HarnessError:
                raise
            except Exception:
                pass
        # (an implementation that removes the unpublished metadata file on a clean failure leaves no orphan: fine)
        if store.view().get(HINT) != ptr or len(_md_names(store)) not in (len(before), len(before) + 1):
            raise HarnessError("h2: expected an unchanged pointer and at most one orphan metadata file")
    elif hid == "h3":
        with pointer_write_hook(crash):
            try:
                load_table(store.loc).append_records([row(7)])
            except _Crash:
                pass
        if not snap_at_crash:
            raise HarnessError("h3: the append never reached the pointer write")
        store.restore(snap_at_crash[0])
        orphan = [n for n in _md_names(store) if n not in before]
        if store.view().get(HINT) != ptr or len(orphan) > 1:
            raise HarnessError("h3: expected an unchanged pointer and at most one orphan metadata file")
        if store.backend == "local":
            body = store.view().get(f"metadata/{orphan[0] if orphan else tip}") or b""
            store.put("metadata/.tmp.crashx0001.v5-0badf00d.metadata.json", body[: len(body) // 2])
    elif hid == "h5":
        ren = {}
        for n in before:
            m = reader._MD_RE.match(n)
            ren[n] = f"v{int(m.group(1))}.metadata.json"  # type: ignore[union-attr]
        for a, b in ren.items():
            body = store.view().get(f"metadata/{a}") or b""
            for x, y in ren.items():
                body = body.replace(x.encode(), y.encode())
            store.put(f"metadata/{a}", body)
            store.rename(f"metadata/{a}", f"metadata/{b}")
        tip = ren[tip]
        m = reader._MD_RE.match(tip)
        store.plant(str(int(m.group(1))).encode())  # type: ignore[union-attr]
    elif hid == "h6":
        import datashard.metadata_manager as mm

        orig = mm.MetadataManager._write_hint_at_commit_point

        def lose_once(self: Any, metadata_file: str, hint_etag: Any) -> None:
            if not fired:
                fired.append(1)
                raise mm.ConcurrentModificationException("injected: lost the commit point (conflict); retrying")
            return orig(self, metadata_file, hint_etag)

        mm.MetadataManager._write_hint_at_commit_point = lose_once  # type: ignore[method-assign]
        try:
            _append(load_table(store.loc), 3)
        finally:
            mm.MetadataManager._write_hint_at_commit_point = orig  # type: ignore[method-assign]
        tip = (store.view().get(HINT) or b"").decode()
        if len(_md_names(store)) not in (len(before) + 1, len(before) + 2) or tip in before:
            raise HarnessError("h6: expected the committed retry plus at most one orphan sibling")
    elif hid not in ("h1", "h7"):
        raise HarnessError(f"unknown history {hid}")
    return {"snap": store.snapshot(), "clock": ENV.clock, "tip": tip}


def _canon_schema(fields: Any) -> str:
    return json.dumps(fields, sort_keys=True)


def extract_model(view: Any, tip: str) -> Dict[str, Any]:
    """The last COMMITTED state, read with the independent reader from the committed metadata file."""
    md = reader.read_metadata(view, tip)
    if md is None:
        raise HarnessError("template: committed metadata file missing")
    chain = [tip] + [e["metadata-file"].rsplit("/", 1)[-1] for e in md.get("metadata_log", [])]
    on_disk = reader.metadata_files(view)
    committed = {v: n for v, n in on_disk if n in chain}
    m = reader._MD_RE.match(tip)
    tip_ver = int(m.group(1))  # type: ignore[union-attr]
    if sorted(committed) != list(range(tip_ver + 1)) or committed[tip_ver] != tip:
        raise HarnessError(f"template: metadata-log chain {chain} does not cover v0..v{tip_ver}: {on_disk}")
    orphans = [n for _v, n in on_disk if n not in chain]
    st = reader.TableState(view, tip)
    if st.errors:
        raise HarnessError(f"template: committed state unreadable: {st.errors}")
    ids = st.snapshot_ids()
    orphan_ids: List[int] = []
    for n in orphans:
        omd = reader.read_metadata(view, n) or {}
        orphan_ids += [s["snapshot_id"] for s in omd.get("snapshots", []) if s["snapshot_id"] not in ids]
    sch = [s for s in md["schemas"] if s["schema_id"] == md["current_schema_id"]]
    return {
        "tip": tip, "tip_ver": tip_ver, "committed": committed, "orphans": orphans,
        "orphan_ids": sorted(set(orphan_ids)), "uuid": md["table_uuid"],
        "schema": _canon_schema(sch[0]["fields"]) if sch else None,
        "ids": ids, "rows": st.current_rows(), "snap_rows": {i: st.snaps[i].rows for i in ids},
    }


# ---------------------------------------------------------------------------
# the pointer grammar
# ---------------------------------------------------------------------------
def _garbage(n: int) -> bytes:
    out = b""
    i = 0
    while len(out) < n:
        out += hashlib.sha256(b"c10-garbage-%d" % i).digest()
        i += 1
    return out[:n]


def pointer_grammar(model: Dict[str, Any], backend: str) -> List[Tuple[str, str, Any]]:
    """[(fine class, class used in violation keys, content)]; content None = absent, DIR = a directory."""
    cur: str = model["tip"]
    c = cur.encode()
    V: int = model["tip_ver"]
    committed: Dict[int, str] = model["committed"]
    names = set(committed.values()) | set(model["orphans"])
    g: List[Tuple[str, str, Any]] = []
    seen: Dict[Any, str] = {}

    def add(fine: str, coarse: str, content: Any) -> None:
        if content in seen:
            return  # same bytes as an earlier class of this history (e.g. '0' == str(V) when V == 0)
        seen[content] = fine
        g.append((fine, coarse, content))

    def cls_of_name(name: str, padded: bool) -> str:
        if name == cur:
            return "valid_current_padded" if padded else "valid_current"
        if name in committed.values():
            return "stale_existing_older"
        if name in model["orphans"]:
            return "names_orphan"
        return "unusable"

    add("absent", "unusable", None)
    add("current", "valid_current", c)
    add("empty", "unusable", b"")
    add("whitespace_only", "unusable", b" \t\r\n \n")
    add("current_trailing_lf", "valid_current_padded", c + b"\n")
    add("current_leading_spaces", "valid_current_padded", b"  " + c)
    add("current_trailing_crlf", "valid_current_padded", c + b"\r\n")
    add("invalid_utf8_prefix", "unusable", b"\xff\xfe" + c)
    add("invalid_utf8_truncated_multibyte", "unusable", c + b"\xe2\x82")
    # bytes that are not UTF-8 at all, although dropping the offending bytes would leave a well-formed pointer
    add("invalid_utf8_around_high_digits", "unusable", b"\xff\xfe99")
    add("invalid_utf8_inside_high_digits", "unusable", b"9\xff9")
    add("invalid_utf8_before_digits_0", "unusable", b"\x80\x810\n")
    if V >= 1:
        prev = committed[V - 1].encode()
        add("invalid_utf8_before_stale_previous", "unusable", b"\xff" + prev)
        add("invalid_utf8_inside_stale_previous", "unusable", prev[:4] + b"\xc3" + prev[4:])
    # characters that str.isdigit() / int() treat as digits although they are not ASCII digits; huge numbers
    add("unicode_superscript_digit", "unusable", "\u00b3".encode())
    add("unicode_circled_digit", "unusable", "\u2462".encode())
    add("unicode_arabic_indic_current_version", "unusable", "".join(chr(0x0660 + int(ch)) for ch in str(V)).encode())
    add("digits_5000_long", "unusable", b"9" * 5000)
    add("nul_suffix", "unusable", c + b"\x00")
    add("nul_only", "unusable", b"\x00" * 16)
    add("nul_inside", "unusable", c[:2] + b"\x00" + c[2:])
    add("truncated_half", "unusable", c[: len(c) // 2])
    add("two_lines", "unusable", c + b"\njunk")
    # legacy numeric form
    digits = [("digits_current_version", str(V)), ("digits_zero_padded", "0" + str(V)), ("digits_spaces", f" {V} "),
              ("digits_0", "0"), ("digits_999", "999")]
    if V >= 1:
        digits.append(("digits_previous_version", str(V - 1)))
    for fine, d in digits:
        coarse_d = cls_of_name(f"v{d.strip()}.metadata.json", d != d.strip())
        if fine == "digits_999" and coarse_d == "unusable":
            coarse_d = "names_missing_higher"
        add(fine, coarse_d, d.encode())
    add("legacy_name_current_version", cls_of_name(f"v{V}.metadata.json", False), f"v{V}.metadata.json".encode())
    # well-formed names
    if V >= 1:
        add("stale_previous", "stale_existing_older", committed[V - 1].encode())
    if V >= 2:
        add("stale_v0", "stale_existing_older", committed[0].encode())
    for fine, name in (("missing_same_version_other_suffix", f"v{V}-0badc0de.metadata.json"),
                       ("missing_higher_version", f"v{V + 6}-0badc0de.metadata.json"),
                       ("missing_older_version_other_suffix", f"v{max(V - 1, 0)}-0badc0de.metadata.json")):
        if name in names:
            raise HarnessError(f"grammar: {name} exists")
        add(fine, "names_missing_higher" if fine == "missing_higher_version" else "unusable", name.encode())
    m = re.match(r"^(v\d+-)([0-9a-f]{8})(\.metadata\.json)$", cur)
    up = (m.group(1) + m.group(2).upper() + m.group(3)) if m else cur.upper()
    if up == cur:
        up = cur.upper()
    add("uppercase", "unusable", up.encode())
    add("path_dotdot", "unusable", b"../x")
    add("path_metadata_dir_current", "unusable", b"metadata/" + c)
    add("path_dot_slash_current", "unusable", b"./" + c)
    add("path_absolute", "unusable", b"/etc/passwd")
    add("path_dotdot_metadata_current", "unusable", b"../metadata/" + c)
    for i, o in enumerate(model["orphans"]):
        add("orphan_name" if i == 0 else f"orphan_name_{i}", "names_orphan", o.encode())
    add("garbage_64k_binary", "unusable", _garbage(65536))
    add("garbage_64k_text", "unusable", ((c + b"\n") * (65536 // (len(c) + 1) + 1))[:65536])
    if backend == "local":
        add("directory", "directory", DIR)
    return g


# ---------------------------------------------------------------------------
# one case
# ---------------------------------------------------------------------------
def observe(t: Any) -> Dict[str, Any]:
    o: Dict[str, Any] = {"uuid": None, "schema": None, "ids": None, "rows": None, "errors": {}}
    try:
        md = t.metadata_manager.refresh()
        o["uuid"] = md.table_uuid if md is not None else None
        sch = t._get_current_schema()
        o["schema"] = _canon_schema(sch.fields) if sch is not None else None
    except Exception as e:  # noqa
        o["errors"]["metadata"] = repr(e)[:200]
    try:
        o["ids"] = [s["snapshot_id"] for s in t.snapshots()]
    except Exception as e:  # noqa
        o["errors"]["snapshots"] = repr(e)[:200]
    try:
        o["rows"] = reader.canon_rows(t.scan())
    except Exception as e:  # noqa
        o["errors"]["scan"] = repr(e)[:200]
    return o


def observe_independent(view: Any, name: str) -> Dict[str, Any]:
    o: Dict[str, Any] = {"uuid": None, "schema": None, "ids": None, "rows": None, "errors": {}}
    try:
        st = reader.TableState(view, name)
        md = st.md or {}
        o["uuid"] = md.get("table_uuid")
        sch = [s for s in md.get("schemas", []) if s["schema_id"] == md.get("current_schema_id")]
        o["schema"] = _canon_schema(sch[0]["fields"]) if sch else None
        o["ids"] = st.snapshot_ids()
        if st.errors:
            o["errors"]["scan"] = "; ".join(st.errors)[:200]
        else:
            o["rows"] = st.current_rows()
    except reader.ReadError as e:
        o["errors"]["metadata"] = repr(e)[:200]
    return o


class Expect:
    def __init__(self, model: Dict[str, Any], lenient: bool):
        self.m = model
        self.ids: List[int] = list(model["ids"])
        self.pending = 0  # successful appends whose snapshot id has not been seen yet
        self.rows: List[Any] = list(model["rows"])
        self.lenient = lenient

    def appended(self, r: Dict[str, Any]) -> None:
        self.pending += 1
        self.rows = sorted(self.rows + [reader.canon_row(r)], key=repr)

    def judge(self, o: Dict[str, Any]) -> Optional[str]:
        m = self.m
        if "metadata" in o["errors"]:
            return "metadata_unreadable"
        if o["uuid"] != m["uuid"]:
            return "reinitialised_new_uuid"
        if o["schema"] != m["schema"]:
            return "schema_replaced"
        if self.lenient:
            return None
        if "snapshots" in o["errors"]:
            return "snapshots_unreadable"
        ids = o["ids"]
        if any(i in m["orphan_ids"] for i in ids):
            return "uncommitted_version_surfaced"
        base = self.ids
        if ids[: len(base)] != base:
            if ids == base[: len(ids)]:
                return "resolved_to_older_version"
            if any(i not in ids for i in base):
                return "committed_snapshot_lost"
            return "snapshot_list_differs"
        if len(ids) < len(base) + self.pending:
            return "acknowledged_append_lost"
        if len(ids) > len(base) + self.pending:
            return "snapshot_list_differs"
        self.ids, self.pending = list(ids), 0
        if "scan" in o["errors"]:
            return "unreadable"
        if o["rows"] != self.rows:
            have = set(o["rows"])
            return "committed_rows_lost" if any(r not in have for r in self.rows) else "rows_differ"
        return None


def run_case(store: Any, tpl: Dict[str, Any], model: Dict[str, Any], hid: str, pclass: Tuple[str, str, Any],
             ops: Tuple[Tuple[str, str], ...], seed: int) -> Dict[str, Any]:
    from datashard import create_table, load_table

    fine, coarse, content = pclass
    store.restore(tpl["snap"])
    store.plant(content)
    ENV.reset(seed, clock=tpl["clock"] + 10.0)
    ENV.set_actor("case")
    judged = coarse != "directory"
    exp = Expect(model, lenient=(coarse == "names_orphan"))
    problems: List[Dict[str, Any]] = []
    trail: List[Dict[str, Any]] = []
    info: List[str] = []
    n_ok_appends = 0
    gc_ran = False
    failed_closed = False

    def note(where: str, problem: str, **kw: Any) -> None:
        problems.append(dict(where=where, problem=problem, **kw))

    done: List[str] = []
    first_handle: Any = None
    for k, (how, action) in enumerate(ops):
        here = ">".join(done + [how])
        try:
            t = load_table(store.loc) if how == "load" else create_table(store.loc, schema(7, OTHER_FIELDS))
        except Exception as e:  # noqa
            trail.append({"op": here, "open_raised": repr(e)[:200]})
            if hid == "h4" and how == "load" and isinstance(e, ValueError) and "No Iceberg table" in str(e) \
                    and k == 0 and coarse != "valid_current":
                info.append("h4_load_reports_no_table")  # nothing was ever committed: accepted
            elif coarse == "names_missing_higher" and k == 0:
                # A well-formed pointer naming a version ABOVE everything on storage testifies that a newer
                # version was committed and is now missing. C14/C07 demand failing closed there (never present
                # an older version as the table); "resolves to the latest committed version" is unsatisfiable.
                # Both behaviours are accepted: refuse to open, or recover the highest version on storage.
                info.append("fail_closed_on_pointer_to_missing_higher_version")
                failed_closed = True
            else:
                note(here, "open_failed", error=repr(e)[:200])
            break
        o = observe(t)
        trail.append({"op": here, "observed": _brief(o)})
        p = exp.judge(o)
        if p:
            note(here, p, observed=_brief(o))
        here = ">".join(done + [op_name((how, action))])
        if action == "append":
            r = row(100 + k)
            try:
                ok = t.append_records([r])
                trail.append({"op": here, "append": ok})
                if ok is True:
                    exp.appended(r)
                    n_ok_appends += 1
                else:
                    note(here, "append_failed", result=repr(ok))
            except Exception as e:  # noqa
                trail.append({"op": here, "append_raised": repr(e)[:200]})
                note(here, "append_failed", error=repr(e)[:200])
        elif action == "gc":
            store.age()
            gc_ran = True
            try:
                stats = t.garbage_collect(0)
                trail.append({"op": here, "gc": stats})
                if any(stats.values()):
                    info.append("gc_deleted_something")
            except Exception as e:  # noqa
                trail.append({"op": here, "gc_raised": repr(e)[:200]})
                info.append("gc_raised")  # the statement does not promise that collection succeeds
        done.append(op_name((how, action)))
        if k == 0:
            first_handle = t  # a long-lived handle: opened while the pointer was in the planted state
        del t

    # ---- re-open with another fresh handle; library view, then the independent reader -------------
    opened = (not (problems and problems[-1]["problem"] == "open_failed") and "h4_load_reports_no_table" not in info
              and not failed_closed)
    here = ">".join(done + ["reopen"])
    view = store.view()
    if opened:
        try:
            t = load_table(store.loc)
            o = observe(t)
            trail.append({"op": here, "observed": _brief(o)})
            p = exp.judge(o)
            if p:
                note(here, p, observed=_brief(o))
        except Exception as e:  # noqa
            trail.append({"op": here, "open_raised": repr(e)[:200]})
            note(here, "open_failed", error=repr(e)[:200])
    # (i) everything reachable from the committed state is still there, byte-readable, with its rows
    here_i = ">".join(done + ["independent_reader"])
    try:
        if exp.lenient:  # which of the two same-version files is "the" committed one is not judged there
            raise _Skip()
        st = reader.TableState(view, model["tip"])
        bad = list(st.errors)
        for i in model["ids"]:
            if i in st.snaps and st.snaps[i].rows != model["snap_rows"][i]:
                bad.append(f"snapshot {i}: rows differ")
        if bad:
            note(here_i, "gc_deleted_committed_data" if gc_ran else "committed_data_destroyed", errors=bad[:4])
    except reader.ReadError as e:
        note(here_i, "committed_metadata_destroyed", error=repr(e)[:200])
    except _Skip:
        pass
    # (ii) an acknowledged append is published through a well-formed pointer and readable independently
    if n_ok_appends and not exp.lenient:
        name = reader.pointer_target(view)
        if name is None:
            info.append("pointer_not_wellformed_after_acknowledged_append")
        else:
            o = observe_independent(view, name)
            exp2 = Expect(model, False)
            exp2.ids, exp2.pending, exp2.rows = list(exp.ids), exp.pending, list(exp.rows)
            p = exp2.judge(o)
            if p:
                note(here_i, p, observed=_brief(o), pointer=name)
    # (iii) the pointer is lost ONCE MORE after a follow-up commit: the version the follow-up published must be the one
    # recovery finds (a commit that numbered its metadata file from a dangling pointer would now be shadowed by an
    # older, higher-numbered committed version)
    if n_ok_appends and opened and not problems and not exp.lenient and judged:
        here3 = ">".join(done + ["pointer_lost_again", "reopen"])
        try:
            store.plant(None)
            t = load_table(store.loc)
            o = observe(t)
            trail.append({"op": here3, "observed": _brief(o)})
            p = exp.judge(o)
            if p:
                note(here3, p, observed=_brief(o))
            info.append("second_pointer_loss_checked")
            if first_handle is not None:
                # the handle that was opened during the FIRST pointer damage is still alive: whatever it remembers
                # from that recovery, it must see the commits made since
                here4 = ">".join(done + ["pointer_lost_again", "first_handle_reads"])
                o = observe(first_handle)
                trail.append({"op": here4, "observed": _brief(o)})
                p = exp.judge(o)
                if p:
                    note(here4, p, observed=_brief(o))
                info.append("long_lived_handle_checked")
        except Exception as e:  # noqa
            trail.append({"op": here3, "open_raised": repr(e)[:200]})
            note(here3, "open_failed", error=repr(e)[:200])
    raw = view.get(HINT)
    return {"history": hid, "backend": store.backend, "pointer_fine": fine, "pointer": coarse,
            "followup": [op_name(o) for o in ops], "judged": judged, "problems": problems if judged else [],
            "unjudged_problems": [] if judged else problems, "info": info, "trail": trail,
            "pointer_after": None if raw is None else raw[:80].decode("latin-1"),
            "pointer_hex": None if content is None else (DIR if content == DIR else content[:48].hex()),
            "pointer_len": None if content in (None, DIR) else len(content)}


def _brief(o: Dict[str, Any]) -> Dict[str, Any]:
    return {"uuid": o["uuid"], "ids": o["ids"], "rows": None if o["rows"] is None else [dict(r).get("a") for r in o["rows"]],
            "schema_fields": None if o["schema"] is None else [f.get("name") for f in json.loads(o["schema"])],
            "errors": o["errors"]}


# ---------------------------------------------------------------------------
# worker
# ---------------------------------------------------------------------------
_ORDER = {"local": 0, "s3cas": 1, "s3nocas": 2}


def _model_public(model: Dict[str, Any]) -> Dict[str, Any]:
    return {"committed_tip": model["tip"], "committed_files": [model["committed"][v] for v in sorted(model["committed"])],
            "orphan_files": model["orphans"], "orphan_snapshot_ids": model["orphan_ids"], "uuid": model["uuid"],
            "snapshot_ids": model["ids"], "rows_a": [dict(r).get("a") for r in model["rows"]]}


def run_chunk(payload: Dict[str, Any]) -> Dict[str, Any]:
    """All cases of one (backend, history) for a slice of the pointer grammar x every follow-up."""
    tier, seed, backend, hid = payload["tier"], payload["seed"], payload["backend"], payload["history"]
    rep = Report(PROP, tier, seed, LEVEL)
    agg: Dict[str, Dict[str, Any]] = {}
    store = make_store(backend, f"{backend}-{hid}-{payload['slice'][0]}")
    store.open()
    try:
        tpl = build_history(store, hid, seed)
        model = extract_model(store.view(), tpl["tip"])
        grammar = pointer_grammar(model, backend)
        fus = followups(payload["depth"])
        mine = grammar[payload["slice"][0]:payload["slice"][1]]
        only = payload.get("only")
        for pc in mine:
            for ops in fus:
                if only and (pc[0] != only["pointer_fine"] or [op_name(o) for o in ops] != only["followup"]):
                    continue
                res = run_case(store, tpl, model, hid, pc, ops, seed)
                rep.add("evaluations")
                rep.add(f"cases_{backend}")
                if pc[1] != "valid_current":
                    rep.nontrivial((hid, pc[0], ",".join(res["followup"])))
                else:
                    rep.add("control_cases_valid_current_pointer")
                for i in sorted(set(res["info"])):
                    rep.add(f"info_{i}")
                if not res["judged"]:
                    rep.add("unjudged_directory_cases")
                    rep.add("unjudged_directory_" + (res["unjudged_problems"][0]["problem"] if res["unjudged_problems"] else "ok"))
                    continue
                if pc[1] == "names_orphan":
                    rep.add("lenient_cases_pointer_names_orphan")
                if not res["problems"]:
                    rep.add("outcome_as_model")
                    if pc[1] != "valid_current" and len(rep.samples) < 1 and pc[0] == "garbage_64k_binary" and len(ops) == payload["depth"]:
                        rep.sample({"outcome": "as_model", "backend": backend, "history": hid, "pointer_class": pc[0],
                                    "pointer_hex_prefix": res["pointer_hex"], "followup": res["followup"],
                                    "trail": res["trail"], "model": _model_public(model)})
                    continue
                first = res["problems"][0]
                rep.add("outcome_violation")
                rep.add(f"problem_{first['problem']}")
                key = {"history": hid, "pointer": pc[1], "followup": first["where"], "problem": first["problem"]}
                kj = json.dumps(key, sort_keys=True)
                acts = [o[1] for o in ops]
                rank = (len(ops), _ORDER[backend], grammar.index(pc), 0 if "append" in acts else (1 if "gc" in acts else 2),
                        ",".join(res["followup"]))
                a = agg.setdefault(kj, {"key": key, "count": 0, "pointer_classes": [], "backends": [], "followups": [],
                                        "rank": None, "example": None})
                a["count"] += 1
                for fld, val in (("pointer_classes", pc[0]), ("backends", backend), ("followups", ">".join(res["followup"]))):
                    if val not in a[fld]:
                        a[fld].append(val)
                if a["rank"] is None or rank < tuple(a["rank"]):
                    a["rank"] = list(rank)
                    a["example"] = {"backend": backend, "history": hid, "history_description": HISTORIES[hid],
                                    "pointer_fine": pc[0], "pointer_hex_prefix": res["pointer_hex"],
                                    "pointer_len": res["pointer_len"], "followup": res["followup"],
                                    "first_problem": first, "consequences": res["problems"][1:6],
                                    "trail": res["trail"], "pointer_after": res["pointer_after"],
                                    "model": _model_public(model)}
        rep.cov.setdefault("grammar_size_per_history", {})[f"{backend}/{hid}"] = len(grammar) if payload["slice"][0] == 0 else 0
    finally:
        store.close()
    out = rep.part()
    out["agg"] = agg
    return out


def _grammar_sizes(tier: str, seed: int) -> Dict[Tuple[str, str], int]:
    """Grammar size per (backend, history): depends on the history's shape (orphans, version) and the backend."""
    sizes: Dict[Tuple[str, str], int] = {}
    for b in BACKENDS[tier]:
        store = make_store(b, "sizes")
        store.open()
        try:
            for hid in HISTORIES:
                tpl = build_history(store, hid, seed)
                sizes[(b, hid)] = len(pointer_grammar(extract_model(store.view(), tpl["tip"]), b))
        finally:
            store.close()
    return sizes


def run(tier: str, seed: int) -> Report:
    rep = Report(PROP, tier, seed, LEVEL)
    depth = DEPTH[tier]
    sizes = _grammar_sizes(tier, seed)
    step = 6 if tier == "quick" else 3
    payloads = []
    for (backend, hid), n in sizes.items():
        for lo in range(0, n, step):
            payloads.append({"tier": tier, "seed": seed, "backend": backend, "history": hid, "depth": depth,
                             "slice": [lo, min(n, lo + step)]})
    if seed:
        random.Random(seed).shuffle(payloads)  # the seed only permutes enumeration order
    agg: Dict[str, Dict[str, Any]] = {}
    samples: List[Any] = []
    vsamples: List[Any] = []
    for part in pmap("checks.c10", "run_chunk", payloads):
        for kj, a in part.pop("agg").items():
            b = agg.get(kj)
            if b is None:
                agg[kj] = a
                continue
            b["count"] += a["count"]
            for fld in ("pointer_classes", "backends", "followups"):
                b[fld] = b[fld] + [x for x in a[fld] if x not in b[fld]]
            if tuple(a["rank"]) < tuple(b["rank"]):
                b["rank"], b["example"] = a["rank"], a["example"]
        samples += part.pop("samples", [])
        rep.merge(part)
    for kj in sorted(agg):
        a = agg[kj]
        detail = dict(a["example"])
        detail.update({"cases_with_this_key": a["count"], "pointer_classes_affected": sorted(a["pointer_classes"]),
                       "backends_affected": sorted(a["backends"]), "followups_affected": sorted(a["followups"])[:40]})
        rep.violation(a["key"], detail)
        rep.violations[json.dumps(a["key"], sort_keys=True)]["count"] = a["count"]
        if len(vsamples) < 3 and a["key"]["followup"] == "load" and a["key"]["history"] in ("h1", "h2", "h3"):
            vsamples.append({"outcome": "violation", "key": a["key"], **{k: a["example"][k] for k in
                             ("backend", "pointer_fine", "pointer_hex_prefix", "followup", "first_problem", "consequences")}})
    samples = sorted(samples, key=lambda s: json.dumps(s, sort_keys=True))
    for s in samples[:2] + vsamples:
        rep.sample(s, force=True)
    expected = sum(n * len(followups(depth)) for n in sizes.values())
    if rep.cov.get("evaluations", 0) != expected:
        raise HarnessError(f"enumerated {rep.cov.get('evaluations')} cases, the stated space has {expected}")
    rep.cov["histories"] = len(HISTORIES)
    rep.cov["backends"] = len(BACKENDS[tier])
    rep.cov["followup_sequences"] = len(followups(depth))
    rep.cov["max_followup_depth"] = depth
    rep.cov["pointer_classes_max_per_history"] = max(sizes.values())
    rep.cov["distinct_violation_keys"] = len(agg)
    rep.cov["exhaustive"] = not rep.caps
    rep.cov["history_descriptions"] = [f"{h}: {d}" for h, d in HISTORIES.items()]
    rep.cov["rule"] = (
        "every history (%d, built through the real API with the failure injected at the pointer write) x every class of the "
        "byte-level pointer grammar (<= %d per history: absent, empty, whitespace, padded current name, invalid UTF-8, NUL "
        "bytes, truncated, legacy digits and legacy name, current name, names of older committed versions (stale), "
        "well-formed names of missing files, upper case, path-like, the orphan's name, 64 KiB garbage, a directory) x every "
        "follow-up sequence of <= %d ops over {load, create(other schema)} x {-, append, garbage_collect(0) over aged files} "
        "(%d sequences) x backends %s, each followed by a re-open and a full read through the library and the independent "
        "reader; a case is non-trivial when the planted pointer is not byte-for-byte the valid current one (distinct = "
        "(history, pointer class, follow-up))" % (len(HISTORIES), max(sizes.values()), depth, len(followups(depth)),
                                                    "/".join(BACKENDS[tier])))
    rep.assumptions += [
        "committed = what the pointer named when the history was built plus the metadata-log chain behind it; every other "
        "v*.metadata.json on disk is an orphan (never committed); an implementation that removes its unpublished metadata "
        "file on a clean commit failure leaves no orphan in h2/h6 - those histories then degenerate to clean ones (accepted)",
        "every pointer class except the orphan's own name must resolve to the committed tip - including a pointer padded with "
        "white space / line ends (the library strips it; treating it as unusable and recovering would be accepted as well)",
        "a pointer naming the ORPHAN metadata file is indistinguishable on disk from a committed v4: only identity (uuid), "
        "persisted schema and 'opening does not raise' are judged there (lenient_cases_pointer_names_orphan)",
        "h4 (creation died before the pointer was first written): load_table may report 'no table' (ValueError) or adopt the "
        "v0 file; create_table must adopt it (same uuid and schema) - a second initialisation would orphan the first creator",
        "a directory in place of the pointer file is not 'content of the pointer file': those cases are run and counted "
        "(unjudged_directory_*), never judged",
        "garbage_collect raising is counted (info_gc_raised), not judged; what is judged is that nothing reachable from the "
        "committed state disappears (every committed snapshot re-read by the independent reader from the committed tip file)",
        "an append that raises or does not return True after recovery is 'not writable' (append_failed); whether a failed "
        "append leaves traces is C11's business",
        "after an acknowledged append the independent reader follows the pointer when it is well formed; a pointer that is "
        "not well formed after a commit is counted (info_pointer_not_wellformed_after_acknowledged_append), not judged",
        "S3: a dead process' lock object is assumed expired and is not part of a history; FakeS3 LastModified carries the "
        "virtual clock with sub-second resolution (real S3: whole seconds - the newest-mtime tie-break among same-version "
        "files is therefore exercised under favourable conditions only)",
        "local files carry real mtimes while the library's clock is virtual: before garbage_collect(0) every file is re-stamped "
        "2 h older than the virtual now (relative order kept); files written later by a follow-up look new and are never collected",
    ]
    rep.notes.append(
        "stale pointer vs. orphan tip are the SAME on-disk situation: {v0..v3 committed, v4 intact orphan, pointer=v3} (h3, "
        "control) and {v0..v4 committed, pointer regressed to v3} (stale) differ in no byte a reader can see; any resolution "
        "rule satisfies at most one of the two demands unless the commit point is recorded somewhere besides the pointer")
    return rep


# ---------------------------------------------------------------------------
# replay
# ---------------------------------------------------------------------------
def replay(case: Dict[str, Any]) -> Dict[str, Any]:
    key, det = case["key"], case.get("detail", {})
    seed = case.get("seed", 0)
    backend, hid = det.get("backend", "local"), key["history"]
    depth = max(1, len(det.get("followup", ["x"])))
    store = make_store(backend, "sizes-replay")
    store.open()
    try:
        tpl = build_history(store, hid, seed)
        n = len(pointer_grammar(extract_model(store.view(), tpl["tip"]), backend))
    finally:
        store.close()
    part = run_chunk({"tier": case.get("tier", "quick"), "seed": seed, "backend": backend, "history": hid, "depth": depth,
                      "slice": [0, n], "only": {"pointer_fine": det["pointer_fine"], "followup": det["followup"]}})
    hit = [a for a in part["agg"].values() if a["key"] == key]
    return {"violated": bool(hit), "matching": [{"key": a["key"], "example": a["example"]} for a in hit[:1]],
            "all_keys": [a["key"] for a in part["agg"].values()]}
