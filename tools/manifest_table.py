# executed by mkmanifest.py ; add(pid, engine, category, technique, text, note, design_ref)
add("C16", "E3", "fault_enumeration",
    "exhaustive power-loss state enumeration: every prefix of the traced os-call sequence x every subset of unflushed effects",
    "Every prefix of the real write path's os-level trace (write/fsync/rename/unlink/dir-fsync) over multi-operation "
    "histories, crossed with every subset of not-yet-durable effects, is materialised in a POSIX durability model and "
    "checked: a surviving pointer implies every reachable file survives with final content. Exhaustive within the "
    "histories run; this is the right level because the property is an ordering property of a short syscall sequence.",
    "POSIX durability model (content at fsync(fd), entries at fsync(dirfd), atomic rename); pyarrow writer bytes are "
    "volatile until the library's fsync; seams see every os call the library's modules make (module-level os/tempfile/pq proxies).",
    "DESIGN.md 2.4 E3c, 3 C16")
