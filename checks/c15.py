"""C15 - table metadata stays well-formed through every history.

Part E2 (dsmc/hist.py): explicit-state BFS over operation histories (all clock
modes, with and without `datashard.snapshot.retention-count=2` /
`write.metadata.previous-versions-max=2`), every transition a real API call.
After EVERY transition an independent invariant checker reads the metadata
JSON and the manifests and demands, against the reference model's full commit
history:
  current_not_retained / current_dangling_on_empty_table
  parent_not_retained / parent_not_true_ancestor / parent_not_nearest_ancestor
  sequence_numbers_not_increasing / sequence_number_exceeds_last / last_sequence_number_decreased
  snapshot_log_names_unretained / snapshot_log_not_in_commit_order
  carried_entry_adding_snapshot_changed / carried_entry_sequence_number_changed
  delete_not_exact
  current_expired
  metadata_log_exceeds_bound / metadata_log_names_missing_file /
  metadata_log_names_unpublished_or_current_version / metadata_log_omits_superseded_predecessor

Part E4: `snapshot_manager.repoint_parents_to_surviving_ancestors` on ALL parent
maps over <= 4 (quick) / <= 5 (thorough) nodes - parents drawn from the nodes
(self-loops and cycles included), None, -1 and a dangling id - times all kept
subsets, against "nearest surviving true ancestor, else nothing".
"""
from __future__ import annotations

import itertools
import os
from typing import Any, Dict, List, Optional, Tuple

from dsmc import hist
from dsmc.hist import (DAY_MS, DEFAULT_PREV_MAX, FULL_ALPHABET, PREV_MAX_PROP, REREGISTER_OPS, STEP_BACK_OPS,
                       Transition, variant)
from dsmc.report import Report, pmap

PROP = "C15"
LEVEL = "model_checking"
NOTHING = (None, -1)


def _strictly_increasing(xs: List[Any]) -> bool:
    return all(x is not None for x in xs) and all(a < b for a, b in zip(xs, xs[1:]))


def oracle(T: Transition) -> None:
    rep = T.rep
    assert rep is not None
    v = T.v
    pre, post, mp, m = T.pre, T.post, T.model_pre, T.model
    rep.add("evaluations")

    def inv(name: str, **kw: Any) -> None:
        d = T.base_detail()
        d.update(kw)
        d["snapshots"] = [{"commit_index": m.idx(s.id) if s.id in m.byid else None, "ts": s.ts, "seq": s.seq,
                           "parent_commit_index": (m.idx(s.parent) if s.parent in m.byid else s.parent)} for s in post.snaps]
        T.flag({"invariant": name, "last_op": T.label, "clock": v["clock"], "props": "retention2" if v["props"] else "none"}, d)

    md = post.md
    if md is None:
        inv("metadata_unreadable", errors=post.errors)
        return
    ids = post.ids
    rset = set(ids)
    cur = md.get("current_snapshot_id")
    if len(m.commits) > len(ids) or len(ids) >= 2:
        rep.nontrivial((v["name"], T.post_digest))
    # 1 -- current
    if ids:
        if cur in NOTHING or cur not in rset:
            inv("current_not_retained", current=cur)
    elif cur not in NOTHING:
        inv("current_dangling_on_empty_table", current=cur)
    if len(rset) != len(ids):
        inv("duplicate_snapshot_ids")
    # 2 -- parents
    for s in post.snaps:
        p = s.parent
        near = m.nearest_retained_ancestor(s.id, rset)
        rep.add("parent_links_checked")
        if p in NOTHING:
            if near is not None:
                rep.add("info_parent_nothing_although_retained_ancestor_exists")
            continue
        if near is not None and s.id in mp.byid and m.byid[s.id]["parent"] != near:
            rep.add("parent_links_repointed_past_removed_snapshots")
        if p not in rset:
            inv("parent_not_retained", snapshot_commit_index=m.idx(s.id))
        elif p not in m.ancestors(s.id):
            inv("parent_not_true_ancestor", snapshot_commit_index=m.idx(s.id), parent_commit_index=m.idx(p))
        elif p != near:
            inv("parent_not_nearest_ancestor", snapshot_commit_index=m.idx(s.id), parent_commit_index=m.idx(p),
                nearest_commit_index=m.idx(near))
    # 3 -- sequence numbers
    order = sorted(ids, key=m.idx)
    seqs = [post.byid[i].seq for i in order]
    last = md.get("last_sequence_number")
    if not _strictly_increasing(seqs):
        inv("sequence_numbers_not_increasing", seqs_in_commit_order=seqs)
    if any(x is not None and x > last for x in seqs):
        inv("sequence_number_exceeds_last", seqs_in_commit_order=seqs, last_sequence_number=last)
    if last < mp.last_seq:
        inv("last_sequence_number_decreased", before=mp.last_seq, after=last)
    # commit order includes the snapshots that have since been deleted or expired: a new commit must be
    # numbered above every number ever issued, not only above the retained ones
    issued = [c["seq"] for c in mp.commits if c["seq"] is not None]
    for n in T.new_ids:
        rep.add("new_sequence_numbers_compared_with_all_ever_issued")
        sq = post.byid[n].seq if n in post.byid else m.byid[n]["seq"]
        if issued and (sq is None or sq <= max(issued)):
            inv("sequence_number_reused", new=sq, highest_ever_issued=max(issued),
                highest_retained=max([x for x in seqs if x is not None and x != sq] or [None], key=lambda x: (x is not None, x)))
    # 4 -- snapshot log
    log_ids = [e.get("snapshot_id") for e in md.get("snapshot_log", [])]
    if any(i not in rset for i in log_ids):
        inv("snapshot_log_names_unretained", n_unretained=sum(1 for i in log_ids if i not in rset))
    li = [m.idx(i) for i in log_ids if i in m.byid]
    if not _strictly_increasing(li):
        inv("snapshot_log_not_in_commit_order", log_commit_indices=li)
    # 5 -- carried entries keep their origin
    for s in post.snaps:
        for e in s.entries:
            org = m.origin.get(e["file_path"])
            again = m.readded.get(e["file_path"], ())
            if org is None or not (e["status"] == 0 or s.id not in [org[0]] + [a[0] for a in again]):
                continue
            rep.add("carried_entries_checked")
            if e["status"] == 0:
                rep.add("existing_status_entries_checked")
            fseq = e["file_sequence_number"] if e["file_sequence_number"] is not None else e["sequence_number"]
            if (e["snapshot_id"], fseq) in again and (e["sequence_number"] is None or e["sequence_number"] == fseq):
                rep.add("carried_entries_of_a_second_registration_checked")
                continue
            if e["snapshot_id"] != org[0]:
                inv("carried_entry_adding_snapshot_changed", status=e["status"], in_snapshot_commit_index=m.idx(s.id),
                    original_commit_index=m.idx(org[0]) if org[0] in m.byid else None)
                break
            if fseq != org[1] or (e["sequence_number"] is not None and e["sequence_number"] != org[1]):
                inv("carried_entry_sequence_number_changed", status=e["status"], observed=[e["sequence_number"], fseq], original=org[1])
                break
    # 6 -- a delete removes exactly the named files
    if T.op[0] in ("delete_file", "delete_file_sb") and T.out["status"] == "ok":
        rep.add("delete_transitions")
        base = pre.byid.get(pre.current_id)
        want = set(base.data_files) - {T.out["victim"]} if base is not None else set()
        if len(T.new_ids) != 1:
            inv("delete_not_exact", how="no_single_new_snapshot", new=len(T.new_ids))
        else:
            got = set(post.byid[T.new_ids[0]].data_files)
            if got != want:
                inv("delete_not_exact", how="file_set", extra_removed=sorted(want - got), not_removed=sorted(got - want))
            elif post.current_id != T.new_ids[0]:
                inv("current_not_retained", how="delete_snapshot_not_current")
    # 7 -- the current snapshot is never expired
    if T.op[0] == "expire" and T.out["status"] == "ok":
        rep.add("expire_transitions")
        if len(pre.ids) != len(ids):
            rep.add("expire_transitions_that_removed_snapshots")
        if pre.current_id is not None and pre.current_id not in rset:
            inv("current_expired", how="expire_snapshots")
    if T.new_ids and v["props"]:
        rep.add("commits_under_retention")
        if len(pre.ids) + len(T.new_ids) > len(ids):
            rep.add("commits_where_retention_removed_snapshots")
        if any(n not in rset for n in T.new_ids):
            inv("current_expired", how="retention_removed_the_committed_snapshot")
    # 8 -- metadata log
    log = md.get("metadata_log", [])
    raw = (md.get("properties") or {}).get(PREV_MAX_PROP)
    try:
        bound = int(raw) if raw is not None else DEFAULT_PREV_MAX
    except (TypeError, ValueError):
        bound = DEFAULT_PREV_MAX
    if bound >= 1 and len(log) > bound:
        inv("metadata_log_exceeds_bound", length=len(log), bound=bound)
    if raw is not None and len(m.versions) - 1 > bound:
        rep.add("states_where_metadata_log_was_trimmed")
    superseded = set(m.versions[:-1])
    for e in log:
        f = str(e.get("metadata-file", "")).lstrip("/")
        if f not in post.files:
            inv("metadata_log_names_missing_file")
            break
        if f.rsplit("/", 1)[-1] not in superseded:
            inv("metadata_log_names_unpublished_or_current_version")
            break
    if len(m.versions) >= 2:
        pred = m.versions[-2]
        if not log or str(log[-1].get("metadata-file", "")).rsplit("/", 1)[-1] != pred:
            inv("metadata_log_omits_superseded_predecessor", log_length=len(log), versions_published=len(m.versions))


# ---------------------------------------------------------------------------
# E4: repoint_parents_to_surviving_ancestors, all small parent maps
# ---------------------------------------------------------------------------
DANGLING = 99


def e4_worker(payload: Tuple[Any, ...]) -> Dict[str, Any]:
    tier, seed, n, firsts = payload
    from datashard.data_structures import Snapshot
    from datashard.snapshot_manager import repoint_parents_to_surviving_ancestors as repoint

    rep = Report(PROP, tier, seed, LEVEL)
    nodes = list(range(1, n + 1))
    nodeset = set(nodes)
    choices: List[Any] = nodes + [None, -1, DANGLING]
    cases = 0
    for first in firsts:
        for rest in itertools.product(choices, repeat=n - 1):
            parents = dict(zip(nodes, (first,) + rest))
            # reference, per node: its chain of true ancestors (nearest first) and whether the chain runs into a cycle
            chain: Dict[int, Tuple[List[int], bool, Any]] = {}
            for s in nodes:
                anc: List[int] = []
                p = parents[s]
                cyc = False
                while p in nodeset:
                    if p in anc:
                        cyc = True
                        break
                    anc.append(p)
                    p = parents[p]
                chain[s] = (anc, cyc, p)
            anycyc = any(c[1] for c in chain.values())
            for mask in range(1 << n):
                keptset = {nodes[i] for i in range(n) if mask >> i & 1}
                snaps = [Snapshot(snapshot_id=i, timestamp_ms=i, manifest_list="x", parent_snapshot_id=parents[i]) for i in nodes]
                kept = [s for s in snaps if s.snapshot_id in keptset]
                repoint(snaps, kept)
                cases += 1
                for s in snaps:
                    sid, got = s.snapshot_id, s.parent_snapshot_id
                    if sid not in keptset:
                        if got != parents[sid]:
                            rep.violation({"part": "E4", "invariant": "repoint_touched_removed_snapshot", "nodes": n},
                                          {"parents": parents, "kept": sorted(keptset), "snapshot": sid, "observed": got})
                        continue
                    anc, cyc, end = chain[sid]
                    near = next((a for a in anc if a in keptset), None)
                    if not cyc:
                        ok = (got == near) if near is not None else (got in NOTHING)
                        if not ok:
                            name = ("repoint_not_nearest_surviving_ancestor" if got in keptset and got in anc else
                                    "repoint_dropped_surviving_ancestor" if got in NOTHING else
                                    "repoint_result_not_a_surviving_true_ancestor")
                            rep.violation({"part": "E4", "invariant": name, "nodes": n, "cyclic_input": anycyc},
                                          {"parents": parents, "kept": sorted(keptset), "snapshot": sid, "expected": near,
                                           "observed": got, "chain_end": end})
                    else:
                        rep.add("e4_cyclic_chain_judgements")
                        if not (got in NOTHING or (got in keptset and got in anc)):
                            rep.violation({"part": "E4", "invariant": "repoint_result_not_a_surviving_true_ancestor", "nodes": n,
                                           "cyclic_input": True},
                                          {"parents": parents, "kept": sorted(keptset), "snapshot": sid, "observed": got})
                        elif got == sid:
                            rep.add("e4_info_cyclic_input_resolved_to_self_parent")
                # distinct non-trivial: by shape class
                removed_parent = any(parents[k] in nodeset and parents[k] not in keptset for k in keptset)
                if removed_parent:
                    rep.add("e4_cases_with_a_removed_parent")
            depth = max(len(c[0]) for c in chain.values())
            rep.nontrivial(("E4", n, depth, anycyc, sum(1 for p in parents.values() if p in NOTHING),
                            sum(1 for p in parents.values() if p == DANGLING)))
    rep.add("e4_cases", cases)
    if n == 3 and firsts and firsts[0] == 1 and len(rep.samples) < 1:
        rep.sample({"part": "E4", "parents": {1: None, 2: 1, 3: 2}, "kept": [1, 3], "expected_parent_of_3": 1})
    return rep.part()


def e4_payloads(tier: str, seed: int) -> List[Tuple[Any, ...]]:
    nmax = 4 if tier == "quick" else 5
    out: List[Tuple[Any, ...]] = []
    for n in range(1, nmax + 1):
        choices: List[Any] = list(range(1, n + 1)) + [None, -1, DANGLING]
        if n < 4:
            out.append((tier, seed, n, choices))
        else:
            for c in choices:
                out.append((tier, seed, n, [c]))
    return out


# ---------------------------------------------------------------------------
C15_ALPHABET = tuple(o for o in FULL_ALPHABET
                     if o not in (("gc", 10 * DAY_MS), ("gc", 0), ("commit_tx", 1), ("rollback_tx", 1)))


def variants(tier: str) -> List[Dict[str, Any]]:
    q = tier == "quick"
    one = dict(max_open=1)
    sb = C15_ALPHABET + STEP_BACK_OPS
    V: List[Dict[str, Any]] = []
    V.append(variant("tick", clock="TICK", depth=4 if q else 6, alphabet=C15_ALPHABET, **one))
    V.append(variant("tick-retention", clock="TICK", props=True, depth=5 if q else 6, alphabet=C15_ALPHABET, **one))
    V.append(variant("frozen", clock="FROZEN", depth=4 if q else 5, alphabet=C15_ALPHABET, **one))
    V.append(variant("frozen-retention", clock="FROZEN", props=True, depth=4 if q else 5, alphabet=C15_ALPHABET, **one))
    V.append(variant("step-back", clock="STEP-BACK", depth=3 if q else 5, alphabet=sb, **one))
    V.append(variant("step-back-retention", clock="STEP-BACK", props=True, depth=4 if q else 5, alphabet=sb, **one))
    V.append(variant("tick-base3", clock="TICK", depth=3 if q else 4, alphabet=C15_ALPHABET,
                     base=[("append",), ("append2",), ("append",)], **one))
    # bounds lowered on a live table whose snapshot list / metadata log already exceed them
    V.append(variant("tick-base4-late-props", clock="TICK", props=True, props_late=True, depth=3 if q else 4,
                     alphabet=C15_ALPHABET, base=[("append",), ("append",), ("append",), ("append",)], **one))
    # a data file registered twice (two manifests list it): deletes must still remove exactly the named file
    rr = (("append",), ("append3",), ("delete_file", "oldest"), ("delete_file", "newest"), ("expire", "all_but_current")) \
        + REREGISTER_OPS + hist.REGISTER_TWO_OPS
    V.append(variant("tick-reregister", clock="TICK", depth=4 if q else 5, alphabet=rr, base=[("append",)], **one))
    return V


def run(tier: str, seed: int) -> Report:
    rep = Report(PROP, tier, seed, LEVEL)
    V = variants(tier)
    res = hist.search(PROP, tier, seed, V, "checks.c15", rep, witness_stride=4 if tier == "quick" else 10)
    rep.cov["states"] = sum(len(vis) for vis in res["visited"].values())
    rep.cov["states_per_variant_per_depth"] = dict(res["per_depth"])
    rep.cov["variants"] = len(V)
    rep.cov["max_depth"] = max(v["depth"] for v in V)
    rep.cov["depth_per_variant"] = {v["name"]: v["depth"] for v in V}
    rep.cov["alphabet"] = [hist.op_label(o) for o in C15_ALPHABET + STEP_BACK_OPS + REREGISTER_OPS + hist.REGISTER_TWO_OPS]
    if tier == "thorough":
        for v in (V[1], V[4]):
            d = hist.differential(PROP, tier, seed, v, 4, "checks.c15", res["visited"][v["name"]], set(rep.violations), rep)
            rep.cov.setdefault("differential", {})[v["name"]] = {"depth": 4, "histories": d["nodes"], "canonical_states": d["states"]}
    for part in pmap("checks.c15", "e4_worker", e4_payloads(tier, seed)):
        rep.merge(part)
    rep.cov["evaluations"] = rep.cov.get("evaluations", 0) + rep.cov.get("e4_cases", 0)
    rep.cov["e4_max_nodes"] = 4 if tier == "quick" else 5
    rep.cov["states_counting"] = "distinct canonical states, summed over variants (each variant is its own search)"
    rep.cov["exhaustive"] = not rep.caps
    rep.cov["rule"] = (
        "E2: per (clock mode, retention/metadata-log setting, base history) BFS over all histories of <= depth alphabet symbols, "
        "the successor of a transition that violated a state property or left the table unreadable is not expanded (counted as states_pruned_after_violation / states_broken_not_expanded). "
        "every transition a real API call, every post-state judged by the invariant checker; states deduplicated by the "
        "canonical form of dsmc/hist.py; a canonical state is non-trivial when it retains >= 2 snapshots or some committed "
        "snapshot has been removed; distinct = (variant, canonical post-state). E4: every parent map over n <= N nodes with "
        "parents in nodes + {None, -1, dangling id} x every kept subset; distinct shape = (n, longest ancestor chain, cyclic, "
        "#roots, #dangling). evaluations = E2 transitions judged + E4 (map, subset) cases")
    rep.assumptions += [
        "true ancestry is the parent-at-commit relation observed by the harness (the current snapshot the commit was based on)",
        "a parent link of None / -1 is always accepted ('or nothing'); a link to a retained snapshot must be the NEAREST retained "
        "true ancestor",
        "the metadata log of a version must name the version it superseded as its last entry; only versions that were actually "
        "published count as superseded",
        "E4, inputs whose ancestor chain runs into a cycle (corrupt metadata): only termination and 'a kept true ancestor or "
        "nothing' are required; on acyclic chains ending in None, -1 or a dangling id both None and -1 count as nothing",
        "the retention and metadata-log properties are committed once through MetadataManager.commit before the search starts",
    ]
    return rep


def replay(case: Dict[str, Any]) -> Dict[str, Any]:
    key, det = case["key"], case["detail"]
    rep = Report(PROP, case.get("tier", "quick"), case.get("seed", 0), LEVEL)
    if key.get("part") == "E4":
        n = key["nodes"]
        parents = {int(k): v for k, v in det["parents"].items()}
        rep.merge(e4_worker((case.get("tier", "quick"), 0, n, [parents[1]])))
    else:
        v = dict(det["variant"])
        v["alphabet"] = list(C15_ALPHABET + STEP_BACK_OPS + REREGISTER_OPS + hist.REGISTER_TWO_OPS)
        ops = [hist.parse_op(x) for x in det["history"]]
        cwd = os.getcwd()
        try:
            hist.run_history(v, ops, "checks.c15", rep, case.get("seed", 0))
        finally:
            os.chdir(cwd)
    hit = [x for x in rep.violations.values() if x["key"] == key]
    return {"violated": bool(hit), "matching": hit[:1], "all_keys": [x["key"] for x in rep.violations.values()][:20]}
