# executed by mkmanifest.py ; add(pid, engine, category, technique, text, note, design_ref)
add("C16", "E3", "fault_enumeration",
    "exhaustive power-loss state enumeration: every prefix of the traced os-call sequence x every subset of unflushed effects",
    "Every prefix of the real write path's os-level trace (write/fsync/rename/unlink/dir-fsync) over multi-operation "
    "histories, crossed with every subset of not-yet-durable effects, is materialised in a POSIX durability model and "
    "checked: a surviving pointer implies every reachable file survives with final content. Exhaustive within the "
    "histories run; this is the right level because the property is an ordering property of a short syscall sequence.",
    "POSIX durability model (content at fsync(fd), entries at fsync(dirfd), atomic rename); pyarrow writer bytes are "
    "volatile until the library's fsync; seams see every os call the library's modules make (module-level os/tempfile/pq proxies).",
    "DESIGN.md 2.4 E3c, 3 C16")
add("C01", "E1", "model_checking",
    "stateless interleaving exploration of the real commit path under a controlled scheduler (state cache, deviation bounds)",
    "Every interleaving of 2 writers (all unordered operation pairs x {shared handle, separate handles} x {local flock, "
    "CAS-S3 over an in-memory S3} x {ticking, frozen clock}) at shared-storage-operation granularity is executed on the "
    "real code, without a preemption bound; 3-4 writers under a stated preemption bound. Each complete execution is judged "
    "against a sequential reference model applied in pointer-advance order. A coverage statement over schedules is exactly "
    "what the property quantifies over.",
    "Scheduling points only at operations on objects shared by >=2 actors (dynamic shared-set fixpoint, Lipton reduction); "
    "in-memory S3 is strongly consistent with AWS conditional-write semantics; local backend uses real flock/rename on tmpfs; "
    "the virtual clock replaces wall time; no unsynchronised shared memory between points (shared-field audit in DESIGN.md).",
    "DESIGN.md 2.4 E1, 3 C01")
add("C06", "E1", "model_checking",
    "stateless interleaving exploration (collector || transactions) on the real code with state cache",
    "Every interleaving of one collector with a committing / rolling-back / conflicting transaction, at shared-storage-"
    "operation granularity, local and CAS-S3, with the transaction's files on both sides of the grace period; "
    "2 actors unbounded, 3 actors under a stated preemption bound. Oracle: every file of every snapshot of the final "
    "metadata exists and parses (independent reader). Deviations: the writer stalls 3 h (never during an open collection "
    "run), a collection run takes 10 more minutes, another writer's whole commit / another process's whole collection lands "
    "as one atomic environment step, a sibling transaction of the same handle finishes first.",
    "Same engine assumptions as C01; grace 1 h; a run longer than the grace period is outside the statement and never judged.",
    "DESIGN.md 3 C06")
add("C08", "E1", "model_checking",
    "stateless interleaving exploration at S3-request granularity with lease-lapse deviations (clock jumps, process pauses)",
    "Every interleaving of 2 committers (plus their heartbeat threads) at S3-request granularity on the real code, with "
    "the real CAS lock and with a lock granting everyone; unbounded without time deviations, and under stated preemption "
    "bounds with clock jumps past the lease / process pauses inserted at every point. Oracles: the CAS replaced the pointer "
    "naming the validated version, serializability of acknowledged commits, no outcome other than success or a retryable conflict, "
    "no pointer write by a committer whose ownership read returned somebody else's lock object, no rewrite of an existing "
    "metadata object. Further deviations: paused and cut off from the lock object, one 503 on the pointer write.",
    "In-memory S3 with AWS conditional-write semantics; the validated version is observed by a harness-side wrapper of "
    "MetadataManager._read_metadata_file inside commit; a delayed in-flight PUT is modelled as descheduling at the request.",
    "DESIGN.md 3 C08")
add("C20", "E2/E4", "model_checking",
    "explicit-state BFS over storage-operation sequences on both backends + exhaustive seek/read programs + k-failure fault sequences",
    "All operation sequences up to a depth over a 6-key space are applied step by step to the local backend and to the S3 "
    "backend (with and without prefix) over an in-memory S3, observations compared pairwise; all seek/read programs up to a "
    "length bound on boundary-size objects against a local file; every k-consecutive-transient-failure and permanent-error "
    "placement per request. States are store contents; every transition runs on the real backends.",
    "In-memory S3 is strongly consistent; documented asymmetries (directories as keys) are checked against the S3 backend's own spec.",
    "DESIGN.md 3 C20")
add("C02", "E1", "model_checking",
    "stateless interleaving exploration (readers || writers) on the real code with state cache",
    "Every interleaving of one reader (two successive reads through one handle, each read API) with each writer kind "
    "(append, multi-append transaction, delete, rollback, commit failing at the pointer write), local and CAS-S3, unbounded; "
    "2 writers / 2 readers under a stated preemption bound. Each read must equal the content of a version that was current "
    "inside the read's interval, and never move backwards.",
    "Same engine assumptions as C01; pandas APIs not installed; thread-pool workers of parallel scans run unscheduled under their parent's baton.",
    "DESIGN.md 3 C02")
add("C11", "E4", "exploration",
    "exhaustive small-scope enumeration of (column type, value class, schema-argument variant, handle, api, 2-append history) against an independent reference",
    "Every combination of column type x value class x schema-argument variant x handle freshness x append API over "
    "two-append histories is run on the real API; rejected appends must leave the independently read table state unchanged, "
    "accepted ones must return exactly the supplied values through every read API and keep filters correct.",
    "Value classes and types as enumerated in the evidence rule; canonical value representation written independently (float32 rounding, date/timestamp).",
    "DESIGN.md 3 C11")
add("C12", "E4", "exploration",
    "exhaustive small-domain enumeration of tables x filter grammar x API configurations against a 3-valued Python evaluator",
    "All table layouts over a small value domain (NULL, a<b<c, NaN) x every operator/alias/set/between/null filter and "
    "conjunction x every scan API, option and projection are executed on the real API; baseline judged per row by an "
    "independent SQL three-valued evaluator, all other API configurations must agree with the baseline.",
    "Rows whose verdict hinges on NaN ordering are compared across APIs only (the statement fixes NULL semantics, not NaN ordering).",
    "DESIGN.md 3 C12")
add("C13", "E4", "exploration",
    "exhaustive decision-table enumeration (file value multiset x operator x literal) + bound round trips + pruned-vs-unpruned scans",
    "Every file value multiset up to a size bound over (NULL, NaN, a<b<c) x every operator x every literal class is decided "
    "by the real pruning code with bounds from the real bound computation and manifest round trip, against the real compute "
    "engine as ground truth; end-to-end scans are compared with pruning replaced by the identity.",
    "The compute engine that all scans share is the ground truth for 'a row can satisfy the predicate'; min/max of NaN-containing columns is not judged, only soundness of skipping.",
    "DESIGN.md 3 C13")
add("C17", "E4", "exploration",
    "exhaustive path-grammar enumeration x entry points x symlink layouts with os-level access tracing",
    "Every path over a 9-component grammar up to depth 3/4 (plus absolute and hand-listed escapes) x 22 entry points x "
    "{root direct, root via symlink} is executed on the real code; every traced os-level content access must lie inside "
    "the canonical root, the sentinel tree outside must be unchanged, and escaping denotations must raise.",
    "Existence/stat probes of outside paths are counted, not judged (the statement lists read/write/delete/rename/list); "
    "escaping strings that GC only compares (never dereferences) are accepted when the outcome equals a harmless in-root string.",
    "DESIGN.md 3 C17")
add("C18", "E1", "model_checking",
    "stateless interleaving exploration of concurrent create/open/first-append on the real code",
    "Every interleaving of 2 creators/openers over the initial states {absent, healthy, pointer lost, v0 without pointer}, "
    "local and CAS-S3, at shared-storage-operation granularity (unbounded where the callers only read; under a stated "
    "preemption bound for the fresh-location races and first-append combinations; 3 callers bounded). Oracle: one uuid "
    "everywhere, existing identity/schema/rows never replaced, acknowledged first appends present exactly once.",
    "Same engine assumptions as C01; the final committed state is resolved by the independent reader.",
    "DESIGN.md 3 C18")
add("C10", "E4", "exploration",
    "exhaustive enumeration of a byte-level pointer grammar x table histories (with orphan metadata) x follow-up operation sequences",
    "Every pointer content class from a byte grammar is planted on each of 7 histories (clean, failed pointer write, dead "
    "committer's orphan, interrupted creation, legacy names, lost race, 10+ versions) and followed by every sequence of "
    "open/create/append/collect operations up to length 2 with fresh handles; identity, schema, snapshot list and rows are "
    "compared with the last committed state of a reference model through the library and the independent reader.",
    "A pointer naming an intact orphan file is indistinguishable on disk from a committed version (only identity/schema/openability judged there).",
    "DESIGN.md 3 C10")
add("C19", "E1", "model_checking",
    "stateless interleaving exploration of the real lock code at syscall / S3-request granularity + enumerated holder-kill points",
    "Every interleaving of 2-3 contenders over the real FileLock (open/flock/close syscalls, real flock on tmpfs) and over "
    "the real S3LockProvider with heartbeat threads, clock jumps past the lease and process pauses; critical sections must "
    "never overlap (without lease lapse), owner changes only on absent or lapsed lock objects, acquire()/is_held() True imply "
    "ownership at that instant, a blocked acquirer times out inside [timeout, timeout+poll]; a real child process is "
    "SIGKILLed after every lock-level step and a contender must then acquire.",
    "flock between distinct open file descriptions of one process behaves like between processes; in-memory S3 with "
    "conditional writes and ETag = content hash (as on AWS); virtual clock.",
    "DESIGN.md 3 C19")
add("C05", "E2", "model_checking",
    "explicit-state BFS over operation histories on real tables (canonical-state dedupe) x table-location spellings",
    "Breadth-first search over all operation histories up to a depth bound (append, multi-append tx, delete, expire, "
    "delete-snapshot, gc with 3 graces, ageing, open/commit/rollback of transactions, failed commit) where every "
    "transition calls the real API on a real table, for 20+ spellings of the table location (absolute, relative, symlinked, "
    "prefix-of-internal-directory names, S3 prefixes). At every gc transition the deleted set is compared with the "
    "independently computed reachable and in-flight sets, every retained snapshot is re-read, and old orphans must be gone.",
    "Canonical form merges states that differ only in opaque names/ids; a no-dedupe differential run guards the abstraction (thorough).",
    "DESIGN.md 2.4 E2, 3 C05")
add("C09", "E2", "model_checking",
    "explicit-state BFS over operation histories on real tables; every retained snapshot re-read after every transition",
    "Same history search (clock modes TICK, FROZEN, STEP-BACK, with and without retention): the bytes of manifest lists and "
    "manifests, file set and rows of every retained snapshot are compared with what was recorded at its commit after every "
    "later transition; lookups by id and by every probe timestamp are compared with the reference 'most recently committed "
    "retained snapshot not newer than t'; deleting the current snapshot must repoint to the most recently committed survivor.",
    "Commit order comes from the reference model, not from ids or timestamps.",
    "DESIGN.md 3 C09")
add("C15", "E2", "model_checking",
    "explicit-state BFS over operation histories + exhaustive enumeration of small snapshot forests for parent repointing",
    "Same history search with an independent invariant checker on the metadata JSON and manifests after every transition "
    "(current in retained, nearest-retained-true-ancestor parents, strictly increasing sequence numbers, snapshot log, "
    "carried entries keep their origin, exact deletes, current never expired, metadata log bound) plus all parent maps "
    "over <=4/5 nodes x all kept subsets for repoint_parents_to_surviving_ancestors against a reference.",
    "Ancestry and origins come from the reference model's full commit history.",
    "DESIGN.md 3 C15")
add("C14", "E3", "fault_enumeration",
    "exhaustive damage / fault enumeration: every reachable file x damage class x read API and option",
    "Every file reachable from the current snapshot x {deleted, zero length, truncation at every structural boundary, "
    "garbage, region overwrites, byte flips (all bytes in thorough), sibling swap} and every storage call of every read x "
    "{fault once, persistent, permanent} x 15 read configurations: the call must raise or return exactly the undamaged answer.",
    "Damage that the independent parser still accepts (and unverified data that still decodes) is counted, not judged.",
    "DESIGN.md 3 C14")
add("C07", "E3", "fault_enumeration",
    "exhaustive fault enumeration over every storage call of a collection + damage classes of every reachable metadata-plane file and marker",
    "Every storage call of garbage_collect x {fault once, persistent, permanent}, every metadata-plane file and marker x "
    "{missing, zero length, every Avro boundary truncation, garbage, sibling swap}, escaping listing entries and "
    "un-stat-able markers, on a table with 3 retained snapshots, open transactions and an abandoned marker: nothing "
    "reachable or protected (ground truth from the independent reader on the undamaged table) may be deleted.",
    "Parseable damage is out of scope (counted); faults on deletes of true orphans may be swallowed.",
    "DESIGN.md 3 C07")
add("C04", "E3", "fault_enumeration",
    "exhaustive fault enumeration: every storage-level call of a commit x every fault kind (+ all ordered fault pairs in the commit region)",
    "The storage-level calls of each commit (5 operations incl. re-registering a referenced file, x 3 call styles x local / "
    "CAS-S3 / non-CAS S3) and of create_table on an empty location are numbered in a "
    "fault-free run; for every call and every applicable fault kind (OSError or ClientError before the effect, once or on "
    "every attempt; permanent error; transport-level error; error after the effect of a PUT/DELETE, incl. a 412 after an "
    "applied conditional pointer write; KeyboardInterrupt/SystemExit before and after "
    "the call) the operation is re-run from the same template with the fault planted there, and the outcome/state table of "
    "the statement is checked, followed by a scan and an append through a fresh handle.",
    "Asynchronous interrupts are placed at storage-call boundaries; close() is modelled as releasing the descriptor even when it reports an error.",
    "DESIGN.md 3 C04")
add("C03", "E3", "fault_enumeration",
    "exhaustive crash-point enumeration: the directory tree after every os-level step of every operation, reopened in a fresh process",
    "The table tree is materialised after every effectful os-level step (mkstemp, write, fsync, close, rename, unlink, flock, "
    "parquet writer open/close; plus torn variants of the temp parquet file) of create / append / delete / expire / "
    "delete-snapshot / collect on bases with 0, 1, 3 snapshots, retention, and bases that are themselves crash states "
    "(thorough: every crash state of 8 operations as the base of a second crash-enumerated operation). Each distinct tree is "
    "reopened by a freshly spawned process: pre- or post-state (post iff the pointer already carries its final content), "
    "library and independent reader agree, every retained snapshot readable, follow-up append and two follow-up "
    "collections succeed and remove only unreachable leftovers.",
    "Crash granularity is the Python-visible os call; leftovers outside the collector's scope (orphan metadata versions, temp files of a dead pointer write) are counted, not judged.",
    "DESIGN.md 2.4 E3b, 3 C03")
