"""C01 - concurrent commits are serializable.

E1: all interleavings (at shared-storage-operation granularity) of K writers
performing one operation each from {append, append+delete tx, delete_files,
expire_snapshots, delete_snapshot(first | second | current)} on a 3-snapshot
table; topology in {one shared handle, one handle per writer}; backend in
{local, CAS-S3}; clock in {TICK (successive commits get distinct ms), FROZEN}.

Oracle: apply the acknowledged operations, in the order the pointer advanced,
to a sequential reference model; the final table (independent reader) must
equal the model: retained snapshots (row content, in commit order), current
snapshot rows, linear parent chain over retained true ancestors, strictly
increasing sequence numbers, exactly one pointer advance per acknowledged
commit and none for a commit that raised.
"""
from __future__ import annotations

import itertools
from typing import Any, Dict, List, Optional, Tuple

from dsmc import reader
from dsmc.commitworld import TableWorld, outcome_of
from dsmc.env import ENV
from dsmc.report import Report, pmap, progress
from dsmc.sched import Execution, Explorer
from dsmc.tables import row, schema

OPS = ["append", "delete_snap_first", "delete_snap_second", "expire", "delete_file", "append_delete", "delete_snap_current"]
META_ONLY = {"delete_snap_first", "delete_snap_second", "expire", "delete_snap_current"}


def build_template(w: TableWorld) -> None:
    from datashard import create_table

    t = create_table(w.location, schema())
    for i in range(3):
        t.append_records([row(i)])


class Ref:
    """Sequential reference model.  A snapshot is (rows multiset, parent index
    in commit history, seq).  History indices are stable identities."""

    def __init__(self, base_rows: List[List[Tuple]]):
        self.hist: List[Dict[str, Any]] = []
        parent = None
        for i, rows in enumerate(base_rows):
            self.hist.append({"rows": tuple(rows), "parent": parent, "alive": True, "seq": i + 1})
            parent = i
        self.current: Optional[int] = len(self.hist) - 1
        self.order: List[int] = list(range(len(self.hist)))  # retained, in list order
        self.last_seq = len(self.hist)
        self.file_rows: Dict[int, Tuple] = {}

    def cur_rows(self) -> Tuple:
        return () if self.current is None else self.hist[self.current]["rows"]

    def commit_files(self, add: Tuple, remove: Tuple) -> None:
        rows = list(self.cur_rows())
        for r in remove:
            if r in rows:
                rows.remove(r)
        rows = tuple(sorted(rows + list(add), key=repr))
        self.last_seq += 1
        self.hist.append({"rows": rows, "parent": self.current, "alive": True, "seq": self.last_seq})
        self.current = len(self.hist) - 1
        self.order.append(self.current)

    def drop(self, idx: int) -> bool:
        if idx not in self.order:
            return False
        self.order.remove(idx)
        self.hist[idx]["alive"] = False
        if self.current == idx:
            self.current = self.order[-1] if self.order else None
        return True

    def expire_before(self, idxs: List[int]) -> None:
        for i in idxs:
            if i != self.current and i in self.order:
                self.order.remove(i)
                self.hist[i]["alive"] = False

    def parent_of(self, idx: int) -> Optional[int]:
        p = self.hist[idx]["parent"]
        while p is not None and not self.hist[p]["alive"]:
            p = self.hist[p]["parent"]
        return p


class C01World(TableWorld):
    def __init__(self, backend: str, topology: str, ops: Tuple[str, ...], rep: Report, cfg: Dict[str, Any]):
        super().__init__(backend, topology, len(ops), build_template, name="c01")
        self.ops = ops
        self.rep = rep
        self.cfg = cfg
        st = self.state()
        self.base_ids = st.snapshot_ids()
        self.base_rows = [list(st.snaps[i].rows) for i in self.base_ids]
        self.base_files = [st.snaps[i].data_files[-1] for i in self.base_ids]
        self.base_ts = [s["timestamp_ms"] for s in st.md["snapshots"]]
        self.base_seq = [s["sequence_number"] for s in st.md["snapshots"]]
        self.outcomes: Dict[Any, int] = {}
        self.retries_seen = 0

    def actors(self):
        out = []
        for i, op in enumerate(self.ops):
            out.append((chr(ord("A") + i), self._body(i, op)))
        return out

    def _body(self, i: int, op: str):
        t = self.handle(i)
        ids, files = self.base_ids, self.base_files

        def body():
            if op == "append":
                return t.append_records([row(10 + i)])
            if op == "delete_file":
                with t.new_transaction() as tx:
                    tx.delete_files(["/" + files[i % 2]])
                    return tx.commit()
            if op == "append_delete":
                with t.new_transaction() as tx:
                    tx.append_data([row(20 + i)])
                    tx.delete_files(["/" + files[2]])
                    return tx.commit()
            if op == "expire":
                with t.new_transaction() as tx:
                    tx.expire_snapshots(self.base_ts[2])
                    return tx.commit()
            if op == "delete_snap_first":
                return t.snapshot_manager.delete_snapshot(ids[0])
            if op == "delete_snap_second":
                return t.snapshot_manager.delete_snapshot(ids[1])
            if op == "delete_snap_current":
                return t.snapshot_manager.delete_snapshot(ids[2])
            raise ValueError(op)

        return body

    # ---- oracle ----------------------------------------------------------------------
    def _apply(self, m: Ref, i: int, op: str) -> None:
        from dsmc.reader import canon_row

        if op == "append":
            m.commit_files((canon_row(row(10 + i)),), ())
        elif op == "delete_file":
            m.commit_files((), tuple(self.base_rows_of_file(i % 2)))
        elif op == "append_delete":
            m.commit_files((canon_row(row(20 + i)),), tuple(self.base_rows_of_file(2)))
        elif op == "expire":
            m.expire_before([0, 1])
        elif op == "delete_snap_first":
            m.drop(0)
        elif op == "delete_snap_second":
            m.drop(1)
        elif op == "delete_snap_current":
            m.drop(2)

    def base_rows_of_file(self, k: int) -> List[Tuple]:
        from dsmc.reader import canon_row

        return [canon_row(row(k))]

    def check(self, ex: Execution) -> None:
        rep = self.rep
        names = [a for a, _ in self.actors()]
        acts = {a.name: a for a in ex.actors}
        outcome = {n: outcome_of(acts[n]) for n in names}
        pubs = [a for a, _body in self.publish_log]
        problems: List[str] = []
        if ex.deadlock:
            problems.append("deadlock")
        acked = []
        for idx, n in enumerate(names):
            kind, val = outcome[n]
            npub = pubs.count(n)
            op = self.ops[idx]
            if kind == "ok" and val is True:
                acked.append(n)
                if npub != 1:
                    problems.append(f"{n}({op}) acknowledged but advanced the pointer {npub} times")
            elif kind == "ok" and val is False and op.startswith("delete_snap"):
                if npub != 0:
                    problems.append(f"{n}({op}) reported 'no such snapshot' but advanced the pointer")
            elif kind == "raise":
                if npub != 0:
                    problems.append(f"{n}({op}) raised {val} but advanced the pointer {npub} times")
            else:
                problems.append(f"{n}({op}) returned {val!r}")
        order = [n for n in pubs if n in acked]
        m = Ref(self.base_rows)
        for n in order:
            i = names.index(n)
            self._apply(m, i, self.ops[i])
        st = self.state()
        if st.errors:
            problems.append(f"final table unreadable: {st.errors[:2]}")
        else:
            got_rows = [tuple(st.snaps[s].rows) for s in st.snapshot_ids()]
            want_rows = [m.hist[i]["rows"] for i in m.order]
            if got_rows != want_rows:
                problems.append(f"retained snapshots differ: got {got_rows} want {want_rows}")
            try:
                cur = tuple(st.current_rows())
                if cur != m.cur_rows():
                    problems.append(f"current rows {cur} != model {m.cur_rows()}")
            except reader.ReadError as e:
                problems.append(f"the current snapshot is not among the retained ones / unreadable: {e}")
            # parent chain / sequence numbers
            snaps = st.md["snapshots"]
            ids = [s["snapshot_id"] for s in snaps]
            if len(set(ids)) != len(ids):
                problems.append("duplicate snapshot ids")
            if got_rows == want_rows:
                id_of = {mi: ids[k] for k, mi in enumerate(m.order)}
                for k, mi in enumerate(m.order):
                    wp = m.parent_of(mi)
                    gp = snaps[k].get("parent_snapshot_id")
                    gp = None if gp in (None, -1) else gp
                    if (id_of.get(wp) if wp is not None else None) != gp:
                        problems.append(f"snapshot #{k}: parent {gp} != nearest retained ancestor {id_of.get(wp)}")
                seqs = [s.get("sequence_number") for s in snaps]
                if any(x is None for x in seqs) or any(b <= a for a, b in zip(seqs, seqs[1:])):
                    problems.append(f"sequence numbers not strictly increasing in commit order: {seqs}")
                if seqs and st.md["last_sequence_number"] < max(seqs):
                    problems.append("last_sequence_number below a snapshot's sequence number")
                if st.md["last_sequence_number"] != m.last_seq:
                    problems.append(f"last_sequence_number {st.md['last_sequence_number']} != model {m.last_seq}")
        okey = (tuple(sorted(outcome.items())), tuple(order))
        self.outcomes[okey] = self.outcomes.get(okey, 0) + 1
        rep.nontrivial((self.cfg["id"], okey))
        if any("sleep" in t for t in ex.trace):
            self.retries_seen += 1
        if problems:
            rep.violation(
                {"backend": self.cfg["backend"], "topology": self.cfg["topology"], "clock": self.cfg["clock"],
                 "ops": list(self.ops), "problem": problems[0].split(":")[0][:60]},
                {"config": self.cfg, "choices": ex.choices, "schedule": ex.trace, "problems": problems,
                 "shared_keys": sorted(ex.ex.shared_keys), "shared_prefixes": sorted(ex.ex.shared_prefixes),
                 "outcomes": {k: list(v) for k, v in outcome.items()}, "pointer_order": pubs})


def run_config(cfg: Dict[str, Any]) -> Dict[str, Any]:
    rep = Report("C01", cfg["tier"], cfg["seed"], "model_checking")
    w = C01World(cfg["backend"], cfg["topology"], tuple(cfg["ops"]), rep, cfg)
    try:
        exp = Explorer(w, bound=cfg.get("bound"), seed=cfg["seed"], clock_mode=cfg["clock"],
                       max_exec=cfg.get("max_exec"), horizon=cfg.get("horizon", 3000))
        exp.on_complete = w.check
        stats = exp.explore()
        exp.visited.clear()
        sample_ex = exp.execute([]) if cfg.get("sample") else None
    finally:
        w.close()
    rep.add("states", stats["states"])
    rep.add("transitions", stats["transitions"])
    rep.add("executions", stats["executions"])
    rep.add("traces_validated_against_impl", stats["complete"])
    rep.add("pruned_executions", stats["pruned"])
    rep.add("determinism_replays", stats["determinism_replays"])
    rep.add("configs")
    rep.add("configs_with_conflict_retry", 1 if w.retries_seen else 0)
    rep.setmax("max_depth", stats["max_depth"])
    if stats["capped"] or exp.cap_hit:
        rep.caps.append(f"{cfg['id']}: cap hit (executions={stats['executions']}, capped runs={stats['capped']})")
    if stats["deadlocks"]:
        rep.add("deadlocks", stats["deadlocks"])
    rep.cov.setdefault("per_config", {})[cfg["id"]] = stats["executions"]
    rep.cov.setdefault("distinct_outcomes", {})[cfg["id"]] = len(w.outcomes)
    if sample_ex is not None:
        ex = sample_ex
        rep.sample({"config": cfg["id"], "default_schedule": ex.trace[:60], "shared_keys": sorted(exp.shared_keys)[:12],
                    "shared_prefixes": sorted(exp.shared_prefixes), "outcomes": [[list(map(list, k[0])), list(k[1]), v]
                                                                                 for k, v in list(w.outcomes.items())[:6]]})
    return rep.part()


def configs(tier: str, seed: int) -> List[Dict[str, Any]]:
    out: List[Dict[str, Any]] = []

    def add(backend, topology, clock, ops, bound=None, max_exec=None, sample=False):
        cid = f"{backend}/{topology}/{clock}/{'+'.join(ops)}" + (f"/b{bound}" if bound is not None else "")
        out.append({"id": cid, "backend": backend, "topology": topology, "clock": clock, "ops": list(ops),
                    "bound": bound, "tier": tier, "seed": seed, "max_exec": max_exec, "sample": sample})

    pairs = list(itertools.combinations_with_replacement(OPS, 2))
    if tier == "quick":
        # every unordered pair once per clock, spread over the 4 backend x topology combinations
        combos = [("s3", "separate"), ("local", "separate"), ("s3", "shared"), ("local", "shared")]
        for k, p in enumerate(pairs):
            for c, clock in enumerate(("TICK", "FROZEN")):
                b, t = combos[(k + c + seed) % 4]
                add(b, t, clock, p, sample=(k == 0 and c == 0))
        add("s3", "separate", "TICK", ("append", "append", "append"), bound=0)
        add("local", "shared", "FROZEN", ("append", "delete_snap_first", "expire"), bound=1)
    else:
        for b in ("s3", "local"):
            for t in ("separate", "shared"):
                for clock in ("TICK", "FROZEN"):
                    for k, p in enumerate(pairs):
                        add(b, t, clock, p, sample=(k == 0 and clock == "TICK" and t == "separate"))
        triples = [("append", "append", "append"), ("append", "delete_snap_first", "expire"),
                   ("append", "append_delete", "delete_file"), ("delete_snap_first", "delete_snap_second", "delete_snap_current")]
        for b in ("s3", "local"):
            for clock in ("TICK", "FROZEN"):
                for tr in triples:
                    add(b, "separate", clock, tr, bound=1)
                    add(b, "shared", clock, tr, bound=1)
        # deeper bound on the two most contended triples
        add("s3", "separate", "TICK", ("append", "append", "append"), bound=2)
        add("local", "shared", "FROZEN", ("append", "delete_snap_first", "expire"), bound=2)
        add("s3", "separate", "TICK", ("append", "append", "append", "append"), bound=0)
        add("local", "separate", "FROZEN", ("append", "delete_snap_first", "expire", "append"), bound=0)
    return out


def run(tier: str, seed: int) -> Report:
    rep = Report("C01", tier, seed, "model_checking")
    cfgs = configs(tier, seed)
    for part in pmap("checks.c01", "run_config", cfgs):
        rep.merge(part)
    rep.cov["exhaustive"] = not rep.caps
    rep.cov["rule"] = ("one execution = one complete interleaving of the writers on the real code; states = distinct "
                       "(store digest, clock, per-actor observation history + pending op) keys at choice points; "
                       "non-trivial = distinct (config, per-writer outcome, pointer-advance order)")
    rep.assumptions += [
        "scheduling points at every storage operation on an object shared by >=2 actors (dynamic shared-set fixpoint); "
        "operations on actor-private objects commute and get no alternatives",
        "K=2 configurations are explored without a preemption bound; K>=3 under the stated bound (reported in config id)",
        "virtual clock: TICK advances 1 ms per pointer publish; FROZEN never advances",
    ]
    return rep


def replay(case: Dict[str, Any]) -> Dict[str, Any]:
    d = case["detail"]
    cfg = d["config"]
    rep = Report("C01", cfg["tier"], cfg["seed"], "model_checking")
    w = C01World(cfg["backend"], cfg["topology"], tuple(cfg["ops"]), rep, cfg)
    try:
        exp = Explorer(w, bound=None, seed=cfg["seed"], clock_mode=cfg["clock"])
        # the shared set must be the one the schedule was recorded under: re-derive it
        exp.max_exec = 1
        exp.explore()
        exp2 = Explorer(w, seed=cfg["seed"], clock_mode=cfg["clock"])
        exp2.shared_keys, exp2.shared_prefixes = set(d.get("shared_keys", exp.shared_keys)), set(d.get("shared_prefixes", exp.shared_prefixes))
        ex = exp2.execute(d["choices"])
        w.check(ex)
    finally:
        w.close()
    return {"violated": bool(rep.violations), "schedule": ex.trace, "violations": list(rep.violations.values())}
