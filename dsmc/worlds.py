"""Adapters that connect the storage seams to the E1 scheduler and give the
explorer a store digest, a reset, and a publish log."""
from __future__ import annotations

import hashlib
import os
import shutil
from typing import Any, Dict, List, Optional, Tuple

from botocore.exceptions import ClientError

from .env import ENV, HINT_NAME
from .fakes3 import FakeS3, Obj, Req
from .localfs import _REAL_OPEN, FD_PATH, Ev
from .sched import Op


def root_actor(name: str) -> str:
    return name.split(".", 1)[0]


class S3Adapter:
    """FakeS3 gate/after listeners for the scheduler."""

    def __init__(self, fake: FakeS3):
        self.fake = fake
        self.publish_log: List[Tuple[str, str]] = []  # (actor, body) of successful pointer PUTs
        self.req_log: List[Tuple[str, str, Any]] = []
        self.keep_log = False
        fake.gates.append(self.gate)
        fake.after.append(self.after)

    def detach(self) -> None:
        self.fake.gates.remove(self.gate)
        self.fake.after.remove(self.after)

    def reset(self) -> None:
        self.publish_log = []
        self.req_log = []

    def gate(self, req: Req) -> None:
        s = ENV.sched
        if s is not None:
            s.point(Op(req.kind, req.key, req.label()))

    def after(self, req: Req, res: Any) -> None:
        s = ENV.sched
        failed = isinstance(res, BaseException)
        if req.op == "PUT" and not failed and req.key.endswith(HINT_NAME):
            self.publish_log.append((root_actor(req.actor), self.fake.objs[req.key].body.decode("utf-8", "replace")))
        if self.keep_log:
            self.req_log.append((req.actor, req.label(), _res_digest(req, res)))
        if s is None:
            return
        s.observe(_res_digest(req, res))
        if req.kind == "w" and not failed:
            s.bump()

    def digest(self) -> Any:
        return self.fake.digest


def _res_digest(req: Req, res: Any) -> Any:
    if isinstance(res, ClientError):
        return ("err", res.response.get("Error", {}).get("Code"))
    if isinstance(res, BaseException):
        return ("exc", type(res).__name__)
    if isinstance(res, Obj):
        return (res.etag, round(res.lm, 6)) if req.op == "HEAD" else res.etag
    if isinstance(res, list):
        return tuple(res)
    if isinstance(res, dict):
        return res.get("ETag")
    return None


class LocalAdapter:
    """ENV.hooks listener for a table rooted at `root` (local backend)."""

    def __init__(self, root: str):
        self.root = os.path.realpath(root)
        self.shadow: Dict[str, Tuple[str, float]] = {}
        self.dig = 0
        self.flock_holder: Optional[str] = None
        self.publish_log: List[Tuple[str, str]] = []
        self.template_shadow: Optional[Dict[str, Tuple[str, float]]] = None
        self.template_dir: Optional[str] = None
        self._md5_cache: Dict[Tuple[str, int, float], str] = {}
        self.op_log: List[Tuple[str, str]] = []
        self.keep_log = False

    # ---- template / reset -----------------------------------------------------
    def rel(self, p: Optional[str]) -> Optional[str]:
        if p is None:
            return None
        if p == self.root:
            return ""
        if p.startswith(self.root + os.sep):
            return p[len(self.root) + 1:]
        rp = os.path.realpath(p)
        if rp == self.root:
            return ""
        if rp.startswith(self.root + os.sep):
            return rp[len(self.root) + 1:]
        return "//" + p

    @staticmethod
    def _h(k: str, v: Tuple[str, float]) -> int:
        return hash((k, v[0], round(v[1], 6)))

    def _md5(self, path: str) -> str:
        try:
            st = os.stat(path)
            ck = (path, st.st_size, st.st_mtime)
            with _REAL_OPEN(path, "rb") as f:
                return hashlib.md5(f.read()).hexdigest()
        except OSError:
            return "?"

    def scan_tree(self) -> Dict[str, Tuple[str, float]]:
        out = {}
        for r, _d, fs in os.walk(self.root):
            for f in fs:
                p = os.path.join(r, f)
                out[os.path.relpath(p, self.root)] = (self._md5(p), round(os.path.getmtime(p), 6))
        return out

    def save_template(self, template_dir: str) -> None:
        """Snapshot the current tree at `root` into `template_dir`."""
        shutil.rmtree(template_dir, ignore_errors=True)
        shutil.copytree(self.root, template_dir, symlinks=True)
        self.template_dir = template_dir
        self.template_shadow = self.scan_tree()

    def reset(self) -> None:
        shutil.rmtree(self.root, ignore_errors=True)
        shutil.copytree(self.template_dir, self.root, symlinks=True)
        self.shadow = dict(self.template_shadow)
        d = 0
        for k, v in self.shadow.items():
            d ^= self._h(k, v)
        self.dig = d
        self.flock_holder = None
        self._holder_fd = None
        self.publish_log = []
        self.op_log = []
        FD_PATH.clear()

    def _set(self, k: str, v: Optional[Tuple[str, float]]) -> None:
        old = self.shadow.pop(k, None)
        if old is not None:
            self.dig ^= self._h(k, old)
        if v is not None:
            self.shadow[k] = v
            self.dig ^= self._h(k, v)

    def digest(self) -> Any:
        return (self.dig, self.flock_holder)

    # ---- hooks ---------------------------------------------------------------------
    def _op(self, ev: Ev) -> Optional[Op]:
        kind = ev.kind
        if kind is None:
            return None
        if ev.mod == "file_lock":
            if ev.fn == "open":
                k = self.rel(ev.path)
                return Op("r" if os.path.exists(ev.path) else "w", k, f"lock.open {k}")
            if ev.fn in ("flock", "close"):
                k = (self.rel(ev.path) or "?") + "#flock"
                what = "flock" if ev.fn == "flock" else "lock.close"
                if ev.fn == "flock":
                    import fcntl

                    what = "flock(UN)" if ev.flags & fcntl.LOCK_UN else "flock(EX|NB)"
                return Op("w", k, f"{what} {k}")
        if ev.fn == "replace":
            k = self.rel(ev.path2)
            return Op("w", k, f"publish {k}")
        if ev.fn in ("remove", "unlink"):
            k = self.rel(ev.path)
            return Op("w", k, f"remove {k}")
        if ev.fn in ("mkstemp", "NamedTemporaryFile"):
            k = (self.rel(ev.path) or "") + f"/.tmp.{ev.actor}"
            return Op("w", k, f"mktemp {k}")
        if ev.fn == "walk":
            k = self.rel(ev.path)
            k = (k + "/") if k else ""
            return Op("l", k, f"list {k}")
        k = self.rel(ev.path)
        return Op(kind, k, f"{ev.fn} {k}")

    def before(self, ev: Ev) -> None:
        s = ENV.sched
        if s is None:
            return
        op = self._op(ev)
        if op is not None:
            s.point(op)

    def after(self, ev: Ev, res: Any, exc: Any) -> None:
        s = ENV.sched
        fn = ev.fn
        wrote = False
        obs: Any = None
        if exc is not None:
            obs = ("exc", type(exc).__name__, getattr(exc, "errno", None))
        if ev.mod == "file_lock":
            if fn == "flock" and exc is None:
                import fcntl

                if ev.flags & fcntl.LOCK_UN:
                    self.flock_holder = None
                    self._holder_fd = None
                else:
                    self.flock_holder = root_actor(ev.actor)
                    self._holder_fd = ev.fd
                wrote = True
                obs = "ok"
            elif fn == "close" and exc is None:
                # closing the fd that holds the flock releases it; closing the fd of a
                # FAILED attempt changes nothing anybody can observe (and must not wake
                # other pollers, or two waiters keep waking each other forever)
                if getattr(self, "_holder_fd", None) == ev.fd:
                    self.flock_holder = None
                    self._holder_fd = None
                    wrote = True
        elif exc is None:
            if fn == "replace":
                k = self.rel(ev.path2)
                src = self.rel(ev.path)
                self._set(src, None)
                tmpk = os.path.dirname(src) + "/.tmpfile." + os.path.basename(src)
                self._set(tmpk, None)
                self._set(k, (self._md5(ev.path2), round(ENV.clock, 6)))
                wrote = True
                if k.endswith(HINT_NAME):
                    with _REAL_OPEN(ev.path2, "rb") as f:
                        self.publish_log.append((root_actor(ev.actor), f.read().decode("utf-8", "replace")))
            elif fn in ("remove", "unlink"):
                self._set(self.rel(ev.path), None)
                wrote = True
            elif fn == "mkstemp":
                k = self.rel(res[1])
                self._set(k, ("tmp", 0.0))
                wrote = True
            elif fn == "NamedTemporaryFile":
                k = self.rel(res.name)
                self._set(k, ("tmp", 0.0))
                wrote = True
            elif fn in ("exists", "getmtime", "getsize"):
                obs = res
            elif fn == "open" and ev.kind == "r":
                obs = self.shadow.get(self.rel(ev.path), "?")
            elif fn == "walk":
                names = []
                for r, _d, fs in res:
                    for f in fs:
                        names.append(os.path.join(r, f))
                obs = tuple(sorted(names))
        if self.keep_log and ev.kind is not None:
            self.op_log.append((ev.actor, ev.label()))
        if s is None:
            return
        if ev.kind is not None:
            s.observe((fn, obs))
        if wrote:
            s.bump()
