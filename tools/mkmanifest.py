#!/usr/bin/env python3
"""Regenerates /verif/MANIFEST.json from the table below (keeps it valid)."""
import json
import os

HERE = os.path.dirname(os.path.dirname(os.path.abspath(__file__)))

LEVEL = {
    "model_checking": "model_checking",
    "fault_enumeration": "fault_enumeration",
    "exploration": "exploration",
}

# id -> (engine, category, technique, text, note, design_ref)
CHECKS = {}
NOT_APPLICABLE = {}


def add(pid, engine, category, technique, text, note, ref):
    CHECKS[pid] = dict(engine=engine, category=category, technique=technique, text=text, note=note, ref=ref)


exec(open(os.path.join(HERE, "tools", "manifest_table.py")).read())

ALL = [f"C{i:02d}" for i in range(1, 21)]

manifest = {
    "version": 1,
    "setup_cmd": "/venv/bin/python -c 'import datashard, fastavro, pyarrow, botocore' && chmod +x /verif/check",
    "hooks": {
        "guard": "DATASHARD_VERIF",
        "enable": "no source hooks: every seam is a module-attribute substitution installed by the harness process "
                  "(dsmc/env.py, dsmc/localfs.py, dsmc/fakes3.py) on the code imported from /repo/src",
        "baseline_off_cmd": "cd /repo && /venv/bin/python -m pytest -ra -q -p no:cacheprovider --timeout=900 "
                            "--continue-on-collection-errors",
        "source_commits": [],
        "add_only": True,
    },
    "engines": [
        {"name": "E1", "path": "dsmc/sched.py", "serves_properties": ["C01", "C02", "C06", "C08", "C18", "C19"],
         "kind_free_text": "stateless interleaving explorer on the real code: cooperative scheduler over real threads, "
                           "choice points at shared storage operations, state cache, deviation bounding"},
        {"name": "E2", "path": "dsmc/hist.py", "serves_properties": ["C05", "C09", "C15", "C20"],
         "kind_free_text": "explicit-state BFS over operation histories on real tables with canonical-state dedupe"},
        {"name": "E3", "path": "dsmc/faults.py, dsmc/durable.py", "serves_properties": ["C03", "C04", "C07", "C14", "C16"],
         "kind_free_text": "exhaustive fault / crash-point / power-loss-state enumeration over the traced storage calls"},
        {"name": "E4", "path": "checks/", "serves_properties": ["C10", "C11", "C12", "C13", "C17", "C20"],
         "kind_free_text": "exhaustive small-scope input enumeration against independent reference evaluators"},
    ],
    "checks": [],
    "not_applicable": [],
    "notes": "All checks: ./check <id> --tier quick|thorough; seams and oracles in DESIGN.md.",
}
for pid in ALL:
    if pid in CHECKS:
        c = CHECKS[pid]
        manifest["checks"].append({
            "property_id": pid,
            "quick_cmd": f"./check {pid} --tier quick",
            "thorough_cmd": f"./check {pid} --tier thorough",
            "evidence_file": f"/verif/evidence/{pid}.json",
            "replay_cmd_template": f"./check {pid} --replay {{path}}",
            "engine": c["engine"],
            "level_claimed": {"category": c["category"], "text": c["text"], "design_ref": c["ref"]},
            "level_note": c["note"],
            "technique": c["technique"],
        })
    else:
        manifest["not_applicable"].append({
            "property_id": pid,
            "reason": NOT_APPLICABLE.get(pid, "check not built yet in this round (planned, see DESIGN.md section 3)"),
        })
with open(os.path.join(HERE, "MANIFEST.json"), "w") as f:
    json.dump(manifest, f, indent=1)
    f.write("\n")
print("checks:", [c["property_id"] for c in manifest["checks"]])
