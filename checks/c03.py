"""C03 - a crash at any point leaves the table in the pre- or post-operation state.

Engine E3b (DESIGN.md 2.4, dsmc/crash.py): exhaustive crash-point enumeration.

Phase 1 (one recorder process per (operation, base table)): the base table is
built, the operation runs once over the os-level seams, and the table tree is
captured before the first and after EVERY effectful os-level step (makedirs,
mkstemp / NamedTemporaryFile, open, write, fsync, close, rename, unlink, flock
take/release, parquet writer open/close).  Identical trees are merged by
content hash; every DISTINCT tree (= crash state: what a reopening process
would find had the writer died at that instant) is materialised, plus three
explicit torn variants (empty / half / full) of every temp parquet file, whose
writes happen inside pyarrow's C++ and cannot be traced one by one.

Phase 2 (fresh spawned worker processes that never ran the dead operation and
share nothing with it but the directory): every crash state is judged

  1. `load_table` succeeds (creation, before the pointer exists: "No Iceberg
     table" is fine, then `create_table(schema)` must create / adopt);
  2. library view == independent reader (metadata document, snapshot list,
     current rows, row count);
  3. the metadata document is exactly PRE or exactly POST; POST iff the
     version pointer already had its final content in that state;
  4. every retained snapshot is fully readable with the rows recorded for it;
  5. a follow-up append succeeds and is visible, with all recovered rows,
     after another reopen;
  6. `garbage_collect(1 h)` 2 h later (the dead writer's markers still protect)
     and again 25 h later (markers abandoned) does not raise, deletes only
     files that no retained snapshot reaches (and nothing outside data/,
     manifests/, inflight/), leaves the table unchanged, and after the second
     one no temp file, marker or orphan remains in the directories it sweeps.
"""
from __future__ import annotations

import gc as _gc
import hashlib
import json
import os
import shutil
from typing import Any, Callable, Dict, List, Optional, Tuple

from dsmc import reader
from dsmc.crash import CrashRecorder, file_class
from dsmc.env import ENV, T0 as ENV_T0
from dsmc.localfs import _REAL_OPEN, install_local_seams
from dsmc.report import HarnessError, Report, pmap
from dsmc.tables import SCHEMA_FIELDS, fresh_dir, row, schema, use_local

PROP = "C03"
LEVEL = "fault_enumeration"
GRACE_MS = 3600_000
DAY_PLUS = 25 * 3600.0
FOLLOW_ROW = {"a": 777001, "s": "after-crash"}

QUICK: List[Tuple[str, str]] = [
    ("create", "empty"),
    ("append", "s0"), ("append", "s1"), ("append", "s3"),
    ("append_delete_tx", "s3"),
    ("delete_files", "s3"),
    ("expire", "s3"),
    ("delete_snapshot", "s3"),
    ("delete_current", "s3"),
    ("gc", "gcbase"),
    ("append", "s3r"),  # retention-count=2: the append prunes a snapshot in the same commit
    # "start from non-initial states": the base is itself a crash state of an append on s1
    ("append", "left_preflip"), ("gc", "left_mid"), ("gc", "left_preflip"), ("delete_files", "left_postflip"),
]
THOROUGH_EXTRA: List[Tuple[str, str]] = [
    ("multi_tx", "s3"),
    ("expire_append_tx", "s3"),
    ("delete_files_whole_manifest", "s3"),
    ("delete_current", "s1"),
    ("delete_files", "s1"),
    ("expire", "s5"), ("append", "s5"),
    ("gc", "s3"),
    ("append", "left_mid"), ("append", "left_postflip"),
    ("delete_files", "left_preflip"),
    ("multi_tx", "left_preflip"),
    ("delete_current", "left_postflip"),
    ("gc", "left_postflip"),
]
# thorough, double crash: EVERY distinct crash state of the first operation (incl. torn parquet variants) is the base
# table of a second operation, which is crash-enumerated in turn.  Base name: "<op>/<base>@<step>[b][+torn_x]".
NESTED: Dict[Tuple[str, str], List[str]] = {
    ("create", "empty"): ["create"],
    ("append", "s1"): ["append", "delete_files", "gc"],
    ("delete_files", "s3"): ["append", "gc"],
    ("gc", "gcbase"): ["gc", "append"],
    ("expire", "s3"): ["append", "gc"],
    ("delete_current", "s3"): ["append", "gc"],
    ("append_delete_tx", "s3"): ["gc", "delete_files"],
    ("append", "s3r"): ["append"],
}
SWEPT = ("data/", "metadata/manifests/", "metadata/inflight/")


# ---------------------------------------------------------------------------
# helpers
# ---------------------------------------------------------------------------
def _j(x: Any) -> Any:
    return json.loads(json.dumps(x, sort_keys=True, default=repr))


def _logical(root: str, adoptable_v0: bool = False) -> Dict[str, Any]:
    """Independent reading of an un-crashed table: metadata document + rows of every snapshot.
    `adoptable_v0` (creation only): without a pointer, the table is the single v0 metadata file a dead creator
    left behind (a retrying creator adopts it and, writing nothing, never creates the pointer)."""
    view = reader.LocalView(root)
    try:
        ts = reader.TableState(view)
        if ts.md is None and adoptable_v0 and view.get(reader.HINT) is None:
            mds = reader.metadata_files(view)
            if len(mds) == 1 and mds[0][0] == 0:
                ts = reader.TableState(view, name=mds[0][1])
    except reader.ReadError as e:
        return {"md": None, "rows": {}, "errors": [str(e)], "files": {}}
    if ts.md is None:
        return {"md": None, "rows": {}, "errors": [], "files": {}}
    files = {f: hashlib.md5(view.get(f) or b"").hexdigest() for f in ts.reachable() | {"metadata/" + ts.md["__file__"]}}
    return {"md": _j(ts.md), "rows": {str(i): list(s.rows or []) for i, s in ts.snaps.items()},
            "errors": list(ts.errors), "files": files}


def _swept(rel: str) -> bool:
    return rel.startswith(SWEPT)


def _plant(root: str, rel: str, data: bytes) -> None:
    p = os.path.join(root, rel)
    os.makedirs(os.path.dirname(p), exist_ok=True)
    with _REAL_OPEN(p, "wb") as f:
        f.write(data)
    os.utime(p, (ENV.clock, ENV.clock))


# ---------------------------------------------------------------------------
# base tables
# ---------------------------------------------------------------------------
def _build_s(root: str, n: int) -> None:
    from datashard import create_table

    t = create_table(root, schema())
    if n >= 1:
        ENV.advance(1.0)
        with t.new_transaction() as tx:  # one snapshot, one manifest, two data files
            tx.append_data([row(0), row(1)])
            tx.append_data([row(10), row(11)])
    for k in range(2, n + 1):
        ENV.advance(1.0)
        t.append_records([row(10 * k), row(10 * k + 1)])
    ENV.advance(1.0)


def build_base(base: str, root: str, work: str) -> None:
    from datashard import load_table

    if base == "empty":
        return
    if base in ("s0", "s1", "s3", "s5"):
        _build_s(root, int(base[1:]))
        return
    if base == "s3r":
        # no public setter for table properties: one metadata-only commit through the metadata manager
        import copy

        _build_s(root, 3)
        t = load_table(root)
        md = t.metadata_manager.refresh()
        new = copy.deepcopy(md)
        new.properties = dict(md.properties, **{"datashard.snapshot.retention-count": "2",
                                                "write.metadata.previous-versions-max": "2"})
        t.metadata_manager.commit(md, new)
        ENV.advance(1.0)
        return
    if base == "gcbase":
        # natural orphans (an expired history) + planted leftovers of dead writers
        _build_s(root, 3)
        t = load_table(root)
        ts = reader.TableState(reader.LocalView(root))
        first = ts.snaps[ts.current_id].data_files[0]
        with t.new_transaction() as tx:
            tx.delete_files([first])
        ENV.advance(1.0)
        cur = t.current_snapshot()
        with t.new_transaction() as tx:
            tx.expire_snapshots(cur.timestamp_ms)
        ENV.advance(1.0)
        donor = reader.LocalView(root).get(ts.snaps[ts.current_id].data_files[1])
        assert donor is not None
        _plant(root, "data/auto_deadbeefdeadbeef.parquet", donor)
        _plant(root, "metadata/inflight/auto_deadbeefdeadbeef.parquet.inflight",
               json.dumps({"file_path": "data/auto_deadbeefdeadbeef.parquet"}).encode())
        _plant(root, "data/tmpdeadx0001.parquet", donor[:len(donor) // 2])
        _plant(root, "metadata/manifests/.tmp.deadx0002.manifest_1_dead.avro", b"Obj\x01garbage")
        return
    if base.startswith("left_"):
        # a crash state of `append` on s1 becomes the table the next operation starts from
        src = os.path.join(work, "nested-t")
        os.makedirs(src)
        _build_s(src, 1)
        t = load_table(src)
        rec = CrashRecorder(src, os.path.join(work, "nested-s"), selfcheck=False)
        _run_recorded(rec, lambda: t.append_records([row(50), row(51)]))
        labels = [s["label"] for s in rec.steps]
        if base == "left_mid":      # temp parquet written, not renamed; its marker exists
            k = labels.index("data_operations.pq_close:tmp(data)")
        elif base == "left_preflip":  # everything written, pointer temp file complete, not renamed
            k = labels.index("storage_backend.close:tmp(pointer)")
        elif base == "left_postflip":  # pointer flipped, markers not yet removed
            k = labels.index("storage_backend.replace:pointer")
        else:
            raise HarnessError(f"unknown base {base}")
        h = rec.steps[k]["hashes"][-1]
        shutil.rmtree(root)
        shutil.copytree(rec.states[h]["path"], root, symlinks=True)
        rec.discard()
        shutil.rmtree(src, ignore_errors=True)
        ENV.advance(1.0)
        return
    raise HarnessError(f"unknown base {base}")


# ---------------------------------------------------------------------------
# operations
# ---------------------------------------------------------------------------
def prepare(op: str, root: str) -> Callable[[], Any]:
    """Everything up to (not including) the operation itself; returns the thunk that is recorded."""
    from datashard import create_table, load_table

    if op == "create":
        return lambda: create_table(root, schema())
    t = load_table(root)
    ts = reader.TableState(reader.LocalView(root))
    files = ts.current_files()
    if op == "append":
        return lambda: t.append_records([row(100), row(101)])
    if op == "append_delete_tx":
        def th() -> None:
            with t.new_transaction() as tx:
                tx.append_data([row(200), row(201)])
                tx.delete_files([files[0]])
        return th
    if op == "multi_tx":
        def th() -> None:
            with t.new_transaction() as tx:
                tx.append_data([row(300)])
                tx.append_data([row(310), row(311)])
                tx.append_data([row(320)])
                tx.delete_files(files[1:3] if len(files) >= 3 else files[:1])
        return th
    if op == "delete_files":
        return lambda: _tx(t, lambda tx: tx.delete_files([files[0]]))
    if op == "delete_files_whole_manifest":
        return lambda: _tx(t, lambda tx: tx.delete_files([files[2]]))
    if op in ("expire", "expire_append_tx"):
        cutoff = t.current_snapshot().timestamp_ms
        older = [s for s in ts.md["snapshots"] if s["timestamp_ms"] < cutoff]
        if len(older) < 2:
            raise HarnessError("expire would not remove >= 2 snapshots")
        if op == "expire":
            return lambda: _tx(t, lambda tx: tx.expire_snapshots(cutoff))

        def th() -> None:
            with t.new_transaction() as tx:
                tx.append_data([row(400)])
                tx.expire_snapshots(cutoff)
        return th
    if op == "delete_snapshot":
        victim = [i for i in ts.snapshot_ids() if i != ts.current_id][0]
        return lambda: t.snapshot_manager.delete_snapshot(victim)
    if op == "delete_current":
        cur = ts.current_id
        return lambda: t.snapshot_manager.delete_snapshot(cur)
    if op == "gc":
        ENV.advance(DAY_PLUS)  # orphans older than the grace period, dead writers' markers abandoned
        return lambda: t.garbage_collect(GRACE_MS)
    raise HarnessError(f"unknown op {op}")


def _tx(t: Any, f: Callable[[Any], Any]) -> None:
    with t.new_transaction() as tx:
        f(tx)


def _run_recorded(rec: CrashRecorder, thunk: Callable[[], Any]) -> None:
    _gc.collect()
    _gc.disable()  # no finalizer (FileLock.__del__) may inject events
    ENV.hooks.append(rec)
    try:
        rec.begin()
        thunk()
    finally:
        ENV.hooks.remove(rec)
        _gc.enable()
    rec.end()


# ---------------------------------------------------------------------------
# phase 1: record
# ---------------------------------------------------------------------------
def record(payload: Tuple[Any, ...]) -> Dict[str, Any]:
    op, base, tier, seed = payload[:4]
    src = payload[4] if len(payload) > 4 else None  # {"path", "clock"}: a crash state of an earlier operation
    install_local_seams()
    use_local()
    ENV.set_actor("second" if src else "main")  # uuids / temp names disjoint from the first dead writer's
    ENV.reset(seed, clock=(src["clock"] + 1.0) if src else ENV_T0)
    work = fresh_dir("c03-" + "".join(c if c.isalnum() else "_" for c in f"{op}-{base}"))
    root = os.path.join(work, "t")
    os.makedirs(root)
    try:
        if src:
            shutil.rmtree(root)
            shutil.copytree(src["path"], root, symlinks=True)
        else:
            build_base(base, root, work)
        pre = _logical(root, op == "create")
        if pre["errors"] or (pre["md"] is None and op != "create"):
            raise HarnessError(f"independent reader: {pre['errors'] or 'no table'}")
        thunk = prepare(op, root)
    except Exception as e:  # noqa - the un-crashed library could not even build the table the operation starts from
        shutil.rmtree(work, ignore_errors=True)
        ENV.set_actor("main")
        if src:
            raise HarnessError(f"{op} on crash state {base}: {e!r}")
        return {"op": op, "base": base, "broken_base": repr(e)[:500], "states": [], "steps": [], "read_events": 0,
                "torn_built": 0}
    rec = CrashRecorder(root, os.path.join(work, "s"))
    try:
        _run_recorded(rec, thunk)
    except HarnessError:
        raise
    except Exception as e:  # noqa - no fault is injected here: the operation itself must succeed
        # on a base left behind by a dead writer (left_*, or a crash state of an earlier operation) this is the
        # statement's "the reopened table accepts new commits"; elsewhere the un-crashed library failed
        rec.discard()
        shutil.rmtree(work, ignore_errors=True)
        ENV.set_actor("main")
        return {"op": op, "base": base, "broken_base": f"operation raised {e!r}"[:500], "states": [], "steps": [],
                "read_events": 0, "torn_built": 0, "after_crash": bool(src) or base.startswith("left_")}
    post = _logical(root, op == "create")
    kind = "create" if op == "create" else ("gc" if op == "gc" else "commit")
    if kind == "commit" and (not rec.has_flip or pre["md"] == post["md"]):
        raise HarnessError(f"{op}/{base}: the operation did not advance the pointer")
    if kind == "gc":
        if rec.has_flip or pre["md"] != post["md"]:
            raise HarnessError("garbage collection changed the metadata")
        if base == "gcbase" and len(set(rec.initial_files) - set(rec.final_files)) < 3:
            raise HarnessError("the recorded garbage collection deleted fewer than 3 files")
    rows = dict(pre["rows"])
    for k, v in post["rows"].items():
        if k in rows and rows[k] != v:
            raise HarnessError(f"rows of snapshot {k} differ between PRE and POST")
        rows[k] = v
    exp = {"kind": kind, "has_flip": rec.has_flip, "pre_md": pre["md"], "post_md": post["md"], "rows": rows,
           "clock": ENV.clock, "initial_files": rec.initial_files, "pre_files": pre["files"],
           "op_deleted": sorted(set(rec.initial_files) - set(rec.final_files))}
    states = rec.state_list()
    shutil.rmtree(root, ignore_errors=True)
    ENV.set_actor("main")
    return {"op": op, "base": base, "exp": exp, "states": states,
            "steps": [{"i": s["i"], "event": s["label"], "states": s["hashes"]} for s in rec.steps],
            "flip_event_step": rec.flip_event_step, "read_events": rec.read_events, "torn_built": rec.torn_built,
            "initial": rec.initial_hash, "final": rec.final_hash}


# ---------------------------------------------------------------------------
# phase 2: judge one crash state in a fresh process
# ---------------------------------------------------------------------------
class _Stop(Exception):
    pass


class Judge:
    def __init__(self, rep: Report, payload: Dict[str, Any]):
        self.rep = rep
        self.p = payload
        self.exp = payload["exp"]
        self.st = payload["state"]
        self.root = self.st["path"]
        self.view = reader.LocalView(self.root)
        self.cls = "?"
        self.phase = "at_or_after_flip" if self.st["flipped"] else "before_flip"

    def fail(self, problem: str, stop: bool = False, **detail: Any) -> None:
        key = {"op": self.p["op"], "base": self.p["base"], "phase": self.phase, "after_event": self.st["label"],
               "problem": problem}
        d = {"op": self.p["op"], "base": self.p["base"], "step": self.st["first"], "steps": self.st["steps"][:20],
             "torn": self.st.get("torn"), "state_hash": self.st["hash"], "class": self.cls,
             "files_in_state": sorted(self.files0)[:80]}
        d.update(detail)
        self.rep.violation(key, d)
        if stop:
            raise _Stop()

    def ok(self, n: int = 1) -> None:
        self.rep.add("evaluations", n)

    # ---- 1-4 ---------------------------------------------------------------------
    def run(self) -> None:
        self.files0 = self.view.list()
        try:
            self._run()
        except _Stop:
            pass

    def _lib_md(self, t: Any) -> Any:
        md = t.metadata_manager.refresh()
        return None if md is None else _j(t.metadata_manager._metadata_to_dict(md))

    def _open(self) -> Tuple[Any, reader.TableState]:
        from datashard import create_table, load_table

        exp = self.exp
        creating = exp["kind"] == "create" and not self.st["flipped"]
        t = None
        try:
            t = load_table(self.root)
        except ValueError as e:
            if not (creating and "No Iceberg table" in str(e)):
                self.fail("load_table_raised", stop=True, error=repr(e)[:400])
        except Exception as e:  # noqa
            self.fail("load_table_raised", stop=True, error=repr(e)[:400])
        self.ok()
        if creating:
            if t is None:
                # nothing adoptable survived: the creator's retry must succeed
                try:
                    t = create_table(self.root, schema())
                except Exception as e:  # noqa
                    self.fail("create_table_after_crash_raised", stop=True, error=repr(e)[:400])
                self.cls = "no_table"
                self.rep.add("create_states_no_table")
                ts = reader.TableState(self.view)
            else:
                self.cls = "adopted_v0"
                self.rep.add("create_states_adopted_v0")
                info = t.metadata_manager._current_version_info()
                ts = reader.TableState(self.view, name=info[1] if info else None)
                if ts.md is not None and _j(ts.md) != exp["post_md"]:
                    self.fail("adopted_table_is_not_the_creators_v0", observed=ts.md)
            if ts.md is None:
                self.fail("no_table_after_create", stop=True)
            cur = [s for s in ts.md["schemas"] if s["schema_id"] == ts.md["current_schema_id"]]
            if ts.md["snapshots"] or not cur or cur[0]["fields"] != [dict(f) for f in SCHEMA_FIELDS]:
                self.fail("created_table_not_empty_with_creators_schema", observed=ts.md)
            return t, ts
        ts = reader.TableState(self.view)
        if ts.md is None:
            # torn / dangling pointer (never on the unchanged code: the pointer is only replaced by rename).  The
            # statement does not forbid it as such: judge the version the library resolves by the PRE/POST rule.
            self.rep.add("states_with_unusable_pointer")
            info = t.metadata_manager._current_version_info()
            ts = reader.TableState(self.view, name=info[1]) if info else ts
            if ts.md is None:
                self.fail("pointer_unusable_and_nothing_resolved", stop=True, pointer=self.view.get(reader.HINT))
        return t, ts

    def _agree(self, t: Any, ts: reader.TableState, where: str) -> None:
        """library view == independent reader"""
        try:
            lib_md = self._lib_md(t)
            lib_ids = [s["snapshot_id"] for s in t.snapshots()]
            cur = t.current_snapshot()
            lib_cur = None if cur is None else cur.snapshot_id
            lib_rows = reader.canon_rows(t.scan())
            lib_count = t.row_count()
        except Exception as e:  # noqa
            self.fail(f"library_read_raised_{where}", stop=True, error=repr(e)[:400], independent_errors=ts.errors)
        ind_md = {k: v for k, v in _j(ts.md).items() if k != "__file__"}
        if lib_md != ind_md:
            self.fail(f"library_and_independent_reader_disagree_{where}", what="metadata document",
                      library=lib_md, independent=ind_md)
        elif lib_ids != ts.snapshot_ids() or lib_cur != ts.current_id:
            self.fail(f"library_and_independent_reader_disagree_{where}", what="snapshot list / current id",
                      library=[lib_ids, lib_cur], independent=[ts.snapshot_ids(), ts.current_id])
        elif not ts.errors and (lib_rows != ts.current_rows() or lib_count != len(ts.current_rows())):
            self.fail(f"library_and_independent_reader_disagree_{where}", what="current rows",
                      library=lib_rows[:10], independent=ts.current_rows()[:10])
        self.ok()

    def _run(self) -> None:
        exp, st = self.exp, self.st
        t, ts = self._open()
        self._agree(t, ts, "after_reopen")

        # 3. PRE or POST, on the right side of the commit point
        md = _j(ts.md)
        if self.cls == "?":
            if md == exp["pre_md"]:
                self.cls = "pre"
            elif md == exp["post_md"]:
                self.cls = "post"
            else:
                self.cls = "neither"
                self.fail("neither_pre_nor_post", observed_file=md.get("__file__"),
                          observed_snapshots=ts.snapshot_ids(), observed_current=ts.current_id,
                          pre_file=(exp["pre_md"] or {}).get("__file__"), post_file=(exp["post_md"] or {}).get("__file__"))
            if exp["has_flip"] and self.cls == "post" and not st["flipped"]:
                self.fail("post_state_before_pointer_flip", observed_file=md.get("__file__"))
            if exp["has_flip"] and self.cls == "pre" and st["flipped"]:
                self.fail("pre_state_after_pointer_flip", observed_file=md.get("__file__"))
        self.rep.add("states_post" if self.cls == "post" else
                     ("states_pre" if self.cls in ("pre", "no_table", "adopted_v0") else "states_neither"))
        if exp["kind"] == "gc":
            missing = set(exp["initial_files"]) - self.files0
            extra = missing - set(exp["op_deleted"])
            if extra:
                self.fail("file_missing_that_the_collection_never_deleted", files=sorted(extra))
            self.rep.add("gc_partial_deletion_states", 1 if 0 < len(missing) < len(exp["op_deleted"]) else 0)
        self.ok()

        # 4. every retained snapshot fully readable, rows as recorded at its commit
        if ts.errors:
            self.fail("retained_snapshot_unreadable", stop=True, errors=ts.errors)
        for sid, sv in ts.snaps.items():
            want = exp["rows"].get(str(sid))
            if want is not None and list(sv.rows or []) != list(want):
                self.fail("snapshot_rows_changed", snapshot=sid, observed=(sv.rows or [])[:10], expected=want[:10])
        # ... and nothing a PRE snapshot reaches (nor the PRE metadata document) was touched by the dead operation
        gone = sorted(f for f in exp["pre_files"] if f not in self.files0)
        changed = sorted(f for f, h in exp["pre_files"].items()
                         if f in self.files0 and hashlib.md5(self.view.get(f) or b"").hexdigest() != h)
        if gone or changed:
            self.fail("file_of_the_pre_state_missing_or_modified", missing=gone, modified=changed)
        self.ok()
        self._info(ts)

        # 5. follow-up append
        from datashard import load_table

        cur_rows = list(ts.current_rows())
        try:
            t.append_records([dict(FOLLOW_ROW)])
        except Exception as e:  # noqa
            self.fail("followup_append_raised", stop=True, error=repr(e)[:400])
        want = sorted(cur_rows + [reader.canon_row(FOLLOW_ROW)], key=repr)
        try:
            t2 = load_table(self.root)
        except Exception as e:  # noqa
            self.fail("reopen_after_followup_append_raised", stop=True, error=repr(e)[:400])
        ts2 = reader.TableState(self.view)
        if ts2.md is None or ts2.errors:
            self.fail("unreadable_after_followup_append", stop=True, errors=ts2.errors)
        self._agree(t2, ts2, "after_followup_append")
        if ts2.current_rows() != want:
            self.fail("followup_append_rows_wrong", observed=ts2.current_rows()[:12], expected=want[:12])
        ids2, ids1 = ts2.snapshot_ids(), ts.snapshot_ids()
        retention = (ts.md.get("properties") or {}).get("datashard.snapshot.retention-count")
        if retention is None:
            history_ok = ids2[:-1] == ids1
        else:  # opt-in retention: the follow-up append itself prunes the oldest snapshots
            n = max(int(retention), 1)
            history_ok = ids2[:-1] == ids1[len(ids1) - len(ids2[:-1]):] and len(ids2) == min(len(ids1) + 1, n)
        if not history_ok or not ids2 or ids2[-1] in ids1 or ts2.current_id != ids2[-1]:
            self.fail("followup_append_changed_history", before=ids1, after=ids2, retention=retention)
        for sid, sv in ts.snaps.items():
            if sid in ts2.snaps and ts2.snaps[sid].rows != sv.rows:
                self.fail("followup_append_changed_old_snapshot", snapshot=sid)
        self.rep.add("followup_appends_ok")
        self.ok()

        # 6a. an early garbage collection (2 h after the crash: the dead writer's markers still protect): safety only
        ENV.advance(2 * 3600.0)
        before = self.view.list()
        reach = ts2.reachable()
        try:
            load_table(self.root).garbage_collect(GRACE_MS)
        except Exception as e:  # noqa
            self.fail("early_followup_gc_raised", stop=True, error=repr(e)[:400])
        deleted = before - self.view.list()
        if deleted & reach:
            self.fail("early_followup_gc_deleted_reachable_file", files=sorted(deleted & reach))
        outside = sorted(f for f in deleted if not _swept(f))
        if outside:
            self.fail("early_followup_gc_deleted_file_outside_its_scope", files=outside)
        self.rep.add("leftovers_removed_by_early_gc", len(deleted))
        early = len(deleted)
        self.ok()

        # 6b. a later garbage collection (markers abandoned): safety + nothing unreachable may remain
        ENV.advance(DAY_PLUS)
        before = self.view.list()
        t3 = load_table(self.root)
        try:
            t3.garbage_collect(GRACE_MS)
        except Exception as e:  # noqa
            self.fail("followup_gc_raised", stop=True, error=repr(e)[:400])
        after = self.view.list()
        deleted = before - after
        if deleted & reach:
            self.fail("followup_gc_deleted_reachable_file", files=sorted(deleted & reach))
        outside = sorted(f for f in deleted if not _swept(f))
        if outside:
            self.fail("followup_gc_deleted_file_outside_its_scope", files=outside)
        left = sorted(f for f in after if _swept(f) and f not in reach)
        if left:
            self.fail("leftover_not_removed_by_followup_gc", files=left, classes=sorted({file_class(f) for f in left}))
        ts3 = reader.TableState(self.view)
        if ts3.md is None or ts3.errors or _j(ts3.md) != _j(ts2.md) or ts3.current_rows() != want:
            self.fail("table_changed_by_followup_gc", errors=ts3.errors)
        else:
            self._agree(load_table(self.root), ts3, "after_followup_gc")
        self.rep.add("followup_gc_ok")
        self.rep.add("leftovers_removed", len(deleted) + early)
        self.rep.add("states_with_leftovers_removed", 1 if (deleted or early) else 0)
        unswept = [f for f in after if os.path.basename(f).startswith(".tmp.") and not _swept(f)]
        self.rep.add("unswept_temp_files_outside_gc_scope_informational", len(unswept))
        self.ok()

    def _info(self, ts: reader.TableState) -> None:
        name = (ts.md or {}).get("__file__", "")
        m = reader._MD_RE.match(name)
        ver = int(m.group(1)) if m else -1
        orphan = [f for v, f in reader.metadata_files(self.view) if v > ver]
        self.rep.add("orphan_metadata_files_informational", len(orphan))


def judge(payload: Dict[str, Any]) -> Dict[str, Any]:
    install_local_seams()
    use_local()
    ENV.reset(payload["seed"], clock=max(payload["exp"]["clock"], payload["state"]["clock"]) + 1.0)
    ENV.set_actor("reopen")  # uuids / temp names disjoint from the dead writer's
    rep = Report(PROP, payload["tier"], payload["seed"], LEVEL)
    j = Judge(rep, payload)
    try:
        j.run()
    finally:
        ENV.set_actor("main")
        if not payload.get("keep"):
            shutil.rmtree(payload["state"]["path"], ignore_errors=True)
    rep.add("states_judged")
    return {"part": rep.part(), "op": payload["op"], "base": payload["base"], "hash": payload["state"]["hash"],
            "cls": j.cls}


# ---------------------------------------------------------------------------
# driver
# ---------------------------------------------------------------------------
def nested_sources(r: Dict[str, Any]) -> List[Tuple[str, Dict[str, Any]]]:
    """(base name, crash state) for every distinct crash state of a recorded operation."""
    out, seen = [], set()
    for st in r["states"]:
        name = f"{r['op']}/{r['base']}@{st['first']}"
        if st.get("torn"):
            name += f"+torn_{st['torn'][1]}"
        while name in seen:
            name += "b"
        seen.add(name)
        out.append((name, st))
    return out

def pairs(tier: str) -> List[Tuple[str, str]]:
    return list(QUICK) if tier == "quick" else list(QUICK) + list(THOROUGH_EXTRA)


def _judge_payloads(r: Dict[str, Any], tier: str, seed: int) -> List[Dict[str, Any]]:
    return [{"op": r["op"], "base": r["base"], "tier": tier, "seed": seed, "exp": r["exp"], "state": st}
            for st in r["states"]]


NEST_BATCH = 64


def _account(rep: Report, r: Dict[str, Any]) -> bool:
    if "broken_base" in r:
        # not a crash state at all: the un-crashed library cannot build / read the table the operation starts from
        if r.get("after_crash"):
            rep.violation({"op": r["op"], "base": r["base"].split("@")[0], "phase": "after_crash", "after_event": "reopen",
                           "problem": "table_left_by_a_dead_writer_refuses_the_operation"}, {"error": r["broken_base"]})
        else:
            rep.violation({"op": r["op"], "base": r["base"], "phase": "no_crash", "after_event": "base_build",
                           "problem": "uncrashed_base_table_unusable"}, {"error": r["broken_base"]})
        rep.caps.append(f"{r['op']}/{r['base']}: base table could not be built, no crash state enumerated")
        return False
    nested = "@" in r["base"]
    rep.add("operations")
    rep.add("os_steps_traced", len(r["steps"]))
    rep.add("crash_points", len(r["steps"]) + 1)
    rep.add("distinct_states", len(r["states"]))
    rep.add("read_only_events_traced", r["read_events"])
    rep.add("torn_parquet_states", r["torn_built"])
    rep.add("torn_parquet_states_distinct", sum(1 for s in r["states"] if s.get("torn")))
    rep.add("states_before_flip", sum(1 for s in r["states"] if not s["flipped"]))
    rep.add("states_at_or_after_flip", sum(1 for s in r["states"] if s["flipped"]))
    if nested:
        rep.add("double_crash_operations")
        rep.add("double_crash_states", len(r["states"]))
    else:
        rep.cov.setdefault("steps_per_op", {})[f"{r['op']}/{r['base']}"] = len(r["steps"])
        rep.cov.setdefault("states_per_op", {})[f"{r['op']}/{r['base']}"] = len(r["states"])
    for s in r["states"]:
        if s["nontrivial"]:
            rep.nontrivial((r["op"], r["base"], s["hash"]))
    return True


def _judge_all(rep: Report, recs: List[Dict[str, Any]], tier: str, seed: int, cls: Dict[Any, str]) -> None:
    payloads: List[Dict[str, Any]] = []
    for r in recs:
        if "broken_base" not in r:
            payloads += _judge_payloads(r, tier, seed)
    if not payloads:
        return
    rep.add("states_materialised", len(payloads))
    # largest trees first: better balance over the pool
    payloads.sort(key=lambda p: -p["state"]["nfiles"])
    for res in pmap("checks.c03", "judge", payloads):
        rep.merge(res["part"])
        cls[(res["op"], res["base"], res["hash"])] = res["cls"]
    for r in recs:
        # every step of the op has >= 1 captured state (enforced by the recorder); every captured state was judged
        if "broken_base" not in r and not all(s["states"] and all((r["op"], r["base"], h) in cls for h in s["states"])
                                              for s in r["steps"]):
            rep.caps.append(f"{r['op']}/{r['base']}: a crash state was not judged")


def run(tier: str, seed: int) -> Report:
    rep = Report(PROP, tier, seed, LEVEL)
    ps = pairs(tier)
    if seed:
        k = seed % len(ps)
        ps = ps[k:] + ps[:k]  # the seed only rotates the enumeration order
    cls: Dict[Any, str] = {}
    recs = pmap("checks.c03", "record", [(op, base, tier, seed) for op, base in ps])
    for r in recs:
        _account(rep, r)
    if tier == "thorough":
        second = [(op2, name, tier, seed, {"path": st["path"], "clock": r["exp"]["clock"]})
                  for r in recs if "broken_base" not in r
                  for name, st in nested_sources(r) for op2 in NESTED.get((r["op"], r["base"]), [])]
        rep.add("double_crash_bases", len({p[1] for p in second}))
        for i in range(0, len(second), NEST_BATCH):  # batches keep the scratch space small
            batch = pmap("checks.c03", "record", second[i:i + NEST_BATCH])
            for r in batch:
                _account(rep, r)
            _judge_all(rep, batch, tier, seed, cls)
    _judge_all(rep, recs, tier, seed, cls)  # last: the double-crash recordings copy these states
    rep.cov["exhaustive"] = bool(rep.cov.get("states_judged", 0) == rep.cov.get("states_materialised", -1)
                                 and not rep.caps)
    for r in recs:
        if "broken_base" in r:
            continue
        if (r["op"], r["base"]) in (("append", "s1"), ("gc", "gcbase")):
            rep.sample({"op": r["op"], "base": r["base"], "pointer_flip_step": r["flip_event_step"],
                        "steps": [{"i": s["i"], "event": s["event"],
                                   "state_after": [f"{h[:8]}:{cls.get((r['op'], r['base'], h), '?')}" for h in s["states"]]}
                                  for s in r["steps"]]})
    rep.cov["operation_base_pairs"] = [f"{o}/{b}" for o, b in pairs(tier)]
    if tier == "thorough":
        rep.cov["double_crash"] = {f"{o}/{b}@<every crash state>": v for (o, b), v in NESTED.items()}
    rep.cov["rule"] = (
        "for every (operation, base table) pair: the table tree before the first and after EVERY effectful os-level call "
        "of the operation (makedirs, mkstemp/NamedTemporaryFile, open, write, fsync, close, rename, unlink, flock take/"
        "release, parquet writer open/close; crash_points = steps + 1), merged by content hash of (path, bytes, mtime) "
        "into distinct crash states, plus empty/half/full variants of every temp parquet file; every distinct state is "
        "reopened in a fresh process and judged by the 6 checks of the module docstring (evaluations = sub-checks reached, 9 "
        "per state that passes all). A state is "
        "non-trivial (distinct_nontrivial = distinct (op, base, tree hash)) when its tree differs from both the tree "
        "before the operation and the tree after it. Thorough adds double crashes: every distinct crash state of "
        "create/empty, append/s1, delete_files/s3 and gc/gcbase is the base table of a second operation that is "
        "crash-enumerated the same way")
    rep.assumptions += [
        "crash == process death: the page cache survives (power loss is C16), the kernel drops the flock, open fds vanish; "
        "the tree right after os-level call k is exactly what a reopening process finds",
        "granularity is the Python-visible os call; a crash inside pyarrow's C++ writer is represented by the temp parquet "
        "file being empty / half / complete",
        "a half-written file carries the (virtual) time of the crash as mtime",
        "'exactly the state before / after' is judged on the complete metadata document named by the pointer (every field, "
        "including properties, logs and sequence numbers) plus the rows of every retained snapshot",
        "commit point = the instant the pointer file has its final content (on the unchanged code: the os.replace onto "
        "metadata.version-hint.text); POST is demanded from that state on, PRE before it",
        "the library has no time-travel read: rows of non-current retained snapshots are judged with the independent reader; "
        "library and independent reader are compared on the metadata document, snapshot list, current rows and row count",
        "creation, before the pointer exists: accepted outcomes are 'no table' (create_table must then succeed) and the empty "
        "table with the creator's schema (adoption of the creator's v0 file)",
        "garbage collection: PRE == POST logically; any subset of the complete run's deletions is accepted, nothing else "
        "may be missing",
        "follow-up garbage collections run through the public Table.garbage_collect(1 h): one 2 h after the crash (safety "
        "only) and one 25 h later, when the dead writer's markers count as abandoned; 'removes only leftovers' is judged as: every deleted file is "
        "unreachable from every retained snapshot and lies in data/, metadata/manifests/ or metadata/inflight/; "
        "non-vacuity: nothing unreachable remains in these three directories afterwards",
        "leftovers OUTSIDE the collector's scope are counted, not judged: orphan vN-*.metadata.json of a dead commit "
        "(orphan_metadata_files_informational) and .tmp.* files of a dead metadata-json / pointer write in metadata/ and the "
        "table root (unswept_temp_files_outside_gc_scope_informational) are never removed by anybody",
        "recovery with a LOST pointer is C10's subject; here the pointer is only ever replaced atomically",
    ]
    return rep


# ---------------------------------------------------------------------------
# replay / by-hand reproduction
# ---------------------------------------------------------------------------
def find_state(r: Dict[str, Any], step: int, torn: Any = None) -> Dict[str, Any]:
    for st in r["states"]:
        if (st.get("torn") or None) == (torn or None) and (st["first"] == step if torn is None else st["first"] == step):
            return st
    for st in r["states"]:
        if step in st["steps"] and not st.get("torn"):
            return st
    raise HarnessError(f"no crash state for step {step} torn={torn}")


def reproduce(op: str, base: str, step: int, torn: Any = None, seed: int = 0, keep: bool = True) -> Dict[str, Any]:
    """Re-record (op, base), return the judge payload for the crash state after `step` (state dir is kept)."""
    src = None
    if "@" in base:
        iop, _, rest = base.partition("/")
        ibase = rest.rsplit("@", 1)[0]
        inner = record((iop, ibase, "quick", seed))
        hit = [s for n, s in nested_sources(inner) if n == base]
        tail = rest.rsplit("@", 1)[1]
        if not hit and tail.isdigit():  # any step index of a state names it
            hit = [s for n, s in nested_sources(inner) if int(tail) in s["steps"] and not s.get("torn")][-1:]
        if not hit:
            raise HarnessError(f"no crash state named {base}")
        src = {"path": hit[0]["path"], "clock": inner["exp"]["clock"]}
    r = record((op, base, "quick", seed) + ((src,) if src else ()))
    if src:
        shutil.rmtree(os.path.dirname(src["path"]), ignore_errors=True)
    st = find_state(r, step, torn)
    for other in r["states"]:
        if other is not st:
            shutil.rmtree(other["path"], ignore_errors=True)
    return {"op": op, "base": base, "tier": "quick", "seed": seed, "exp": r["exp"], "state": st, "keep": keep}


def replay(case: Dict[str, Any]) -> Dict[str, Any]:
    det = case.get("detail", {})
    want = case["key"]
    if want.get("phase") == "no_crash":
        r = record((want["op"], want["base"], "quick", case.get("seed", 0)))
        for st in r["states"]:
            shutil.rmtree(st["path"], ignore_errors=True)
        return {"violated": "broken_base" in r, "error": r.get("broken_base")}
    p = reproduce(det["op"], det["base"], int(det["step"]), det.get("torn"), case.get("seed", 0), keep=False)
    res = judge(p)
    keys = [v["key"] for v in res["part"]["violations"].values()]
    hit = [k for k in keys if all(k.get(f) == v for f, v in want.items())]
    return {"violated": bool(hit), "matching": hit[:3], "all_keys": keys[:20], "class": res["cls"]}
