"""C09 - retained snapshots are immutable and time travel is stable.

Engine E2 (dsmc/hist.py): explicit-state BFS over operation histories, every
transition a real DataShard API call on a real table; clock modes TICK (1 ms
per pointer publish), FROZEN (time never advances by itself) and STEP-BACK
(symbols that move the clock back 5 ms before committing).

Oracle after EVERY transition (independent reader + reference model):
  * every snapshot still listed keeps the manifest-list path, the bytes of its
    list and manifests, its file set, its rows and its (id, timestamp,
    manifest list, sequence number, operation) record as recorded at its commit
                                              else snapshot_content_changed
  * table.snapshot_by_id(id) / table.time_travel(snapshot_id=id) return that record
                                              else lookup_by_id_wrong
  * for every probe time t in {each retained timestamp, +-1, min-1, max+1}:
    table.time_travel(timestamp=t) is the most recently COMMITTED retained
    snapshot with timestamp <= t (commit order from the model)
                                              else time_travel_wrong
  * delete_snapshot(current) leaves current = most recently committed survivor
                                              else current_after_delete_wrong
"""
from __future__ import annotations

import os
from typing import Any, Dict, List, Optional, Tuple

from dsmc import hist
from dsmc.hist import FULL_ALPHABET, STEP_BACK_OPS, DAY_MS, Transition, variant
from dsmc.report import Report

PROP = "C09"
LEVEL = "model_checking"


def _rec(s: Any) -> Optional[Tuple[Any, ...]]:
    if s is None:
        return None
    return (s.snapshot_id, s.timestamp_ms, s.manifest_list, s.sequence_number, s.operation)


def oracle(T: Transition) -> None:
    rep = T.rep
    assert rep is not None
    v = T.v
    clock, props = v["clock"], ("retention2" if v["props"] else "none")
    post, mp, m = T.post, T.model_pre, T.model
    rep.add("evaluations")

    def detail(**kw: Any) -> Dict[str, Any]:
        d = T.base_detail()
        d.update(kw)
        return d

    if post.md is None:
        T.flag({"problem": "snapshot_content_changed", "what": "table_unreadable", "op": T.label, "clock": clock, "props": props},
               detail(errors=post.errors))
        return
    # ---- immutability ---------------------------------------------------
    rechecked = 0
    for s in post.snaps:
        rec = mp.byid.get(s.id)
        if rec is None:
            continue  # committed by this very transition: recorded now
        rechecked += 1
        what = None
        if s.err is not None:
            what = "unreadable"
        elif s.mlist != rec["mlist"]:
            what = "manifest_list_path"
        elif s.sig != rec["sig"]:
            what = "manifest_bytes"
        elif tuple(sorted(s.data_files)) != rec["files"]:
            what = "file_set"
        elif s.rows != rec["rows"]:
            what = "rows"
        elif s.record() != rec["record"]:
            what = "record"
        if what:
            T.flag({"problem": "snapshot_content_changed", "what": what, "op": T.label, "clock": clock, "props": props},
                   detail(snapshot_commit_index=rec["idx"], error=s.err, recorded=rec["record"], observed=s.record(),
                          recorded_files=rec["files"], observed_files=sorted(s.data_files)))
            break
    rep.add("snapshot_rechecks", rechecked)
    if rechecked and len(post.snaps) >= 2:
        rep.nontrivial((v["name"], T.post_digest))
    if T.op[0] == "failed_commit" and (post.ids != T.pre.ids or post.current_id != T.pre.current_id or post.mdfile != T.pre.mdfile):
        rep.add("info_failed_commit_changed_the_published_table")
    # ---- lookup by id ------------------------------------------------------
    t = T.table
    for s in post.snaps:
        want = m.byid[s.id]["record"]
        for api in ("snapshot_by_id", "time_travel"):
            got = _rec(t.snapshot_by_id(s.id) if api == "snapshot_by_id" else t.time_travel(snapshot_id=s.id))
            rep.add("lookups_by_id")
            if got != tuple(want):
                T.flag({"problem": "lookup_by_id_wrong", "api": api, "op": T.label, "clock": clock, "props": props},
                       detail(expected=want, observed=got), prune=False)
    # ---- lookup by timestamp ---------------------------------------------------
    if post.snaps:
        ts_of = {s.id: m.byid[s.id]["ts"] for s in post.snaps}
        stamps = sorted(set(ts_of.values()))
        probes: Dict[int, str] = {}
        for x in stamps:
            probes.setdefault(x - 1, "ts-1")
            probes.setdefault(x + 1, "ts+1")
        for x in stamps:
            probes[x] = "at_ts"
        probes[stamps[0] - 1] = "min-1"
        probes[stamps[-1] + 1] = "max+1"
        for x, kind in sorted(probes.items()):
            cands = [sid for sid in ts_of if ts_of[sid] <= x]
            want_id = max(cands, key=m.idx) if cands else None
            got = t.time_travel(timestamp=x)
            gid = None if got is None else got.snapshot_id
            rep.add("lookups_by_timestamp")
            if gid != want_id:
                if gid is None or want_id is None:
                    rel = "none_vs_snapshot"
                elif gid not in ts_of:
                    rel = "observed_not_retained"
                elif ts_of[gid] > x:
                    rel = "observed_newer_than_requested"
                elif ts_of[gid] == ts_of[want_id]:
                    rel = "same_timestamp_older_commit"
                elif ts_of[gid] > ts_of[want_id]:
                    rel = "larger_timestamp_but_older_commit"
                else:
                    rel = "smaller_timestamp_than_expected"
                T.flag({"problem": "time_travel_wrong", "relation": rel, "clock": clock, "props": props},
                       detail(probe_time=x, probe=kind,
                              retained=[{"commit_index": m.idx(sid), "ts": ts_of[sid]} for sid in post.ids],
                              expected_commit_index=None if want_id is None else m.idx(want_id),
                              observed_commit_index=None if gid is None or gid not in m.byid else m.idx(gid)),
                       prune=False)
    # ---- deleting the current snapshot ---------------------------------------------
    if T.op == ("delete_snapshot", "current") and T.out["status"] == "ok":
        rep.add("delete_current_transitions")
        surv = [sid for sid in post.ids]
        want_cur = max(surv, key=m.idx) if surv else None
        if T.out.get("target") in post.byid:
            T.flag({"problem": "current_after_delete_wrong", "how": "not_deleted", "clock": clock, "props": props}, detail())
        elif post.current_id != want_cur:
            T.flag({"problem": "current_after_delete_wrong", "how": "not_most_recent_survivor", "clock": clock, "props": props},
                   detail(survivors=[{"commit_index": m.idx(sid), "ts": m.byid[sid]["ts"]} for sid in surv],
                          expected_commit_index=None if want_cur is None else m.idx(want_cur),
                          observed_commit_index=None if post.current_id is None or post.current_id not in m.byid else m.idx(post.current_id)))


# ---------------------------------------------------------------------------
C09_ALPHABET = tuple(o for o in FULL_ALPHABET
                     if o not in (("gc", 10 * DAY_MS), ("commit_tx", 1), ("rollback_tx", 1)))


def variants(tier: str) -> List[Dict[str, Any]]:
    q = tier == "quick"
    V: List[Dict[str, Any]] = []
    d = 5 if q else 6
    d2 = 4 if q else 5
    one = dict(max_open=1)
    V.append(variant("tick", clock="TICK", depth=d, alphabet=C09_ALPHABET, **one))
    V.append(variant("frozen", clock="FROZEN", depth=d2, alphabet=C09_ALPHABET, **one))
    V.append(variant("tick-retention", clock="TICK", props=True, depth=d2, alphabet=C09_ALPHABET, **one))
    V.append(variant("frozen-retention", clock="FROZEN", props=True, depth=d2, alphabet=C09_ALPHABET, **one))
    V.append(variant("tick-base3", clock="TICK", depth=3 if q else 4, alphabet=C09_ALPHABET,
                     base=[("append",), ("append2",), ("append",)], **one))
    sb = C09_ALPHABET + STEP_BACK_OPS
    V.append(variant("step-back", clock="STEP-BACK", depth=3 if q else 5, alphabet=sb, **one))
    if not q:
        V.append(variant("step-back-retention", clock="STEP-BACK", props=True, depth=4, alphabet=sb, **one))
    return V


def run(tier: str, seed: int) -> Report:
    rep = Report(PROP, tier, seed, LEVEL)
    V = variants(tier)
    res = hist.search(PROP, tier, seed, V, "checks.c09", rep, witness_stride=4 if tier == "quick" else 10)
    rep.cov["states"] = sum(len(vis) for vis in res["visited"].values())
    rep.cov["states_per_variant_per_depth"] = dict(res["per_depth"])
    rep.cov["variants"] = len(V)
    rep.cov["max_depth"] = max(v["depth"] for v in V)
    rep.cov["depth_per_variant"] = {v["name"]: v["depth"] for v in V}
    rep.cov["alphabet"] = [hist.op_label(o) for o in C09_ALPHABET]
    if tier == "thorough":
        for v in (V[0], V[1], V[5]):
            d = hist.differential(PROP, tier, seed, v, 4, "checks.c09", res["visited"][v["name"]], set(rep.violations), rep)
            rep.cov.setdefault("differential", {})[v["name"]] = {"depth": 4, "histories": d["nodes"], "canonical_states": d["states"]}
    rep.cov["states_counting"] = "distinct canonical states, summed over variants (each variant is its own search)"
    rep.cov["exhaustive"] = not rep.caps
    rep.cov["rule"] = (
        "per (clock mode, retention setting, base history): BFS over all histories of <= depth alphabet symbols, each "
        "the successor of a transition that violated a state property or left the table unreadable is not expanded (counted as states_pruned_after_violation / states_broken_not_expanded). "
        "transition a real API call on the real table; states deduplicated by the canonical form of dsmc/hist.py. "
        "evaluations = transitions judged (every retained snapshot re-read and compared, every id looked up, every probe "
        "time looked up). A canonical state is non-trivial when it retains >= 2 snapshots of which >= 1 was committed "
        "before the judged transition; distinct = (variant, canonical post-state)")
    rep.assumptions += [
        "'most recently committed' is the commit order observed by the harness (reference model), never ids or timestamps",
        "a snapshot's parent link may change while it is retained (repointing, judged by C15); id, timestamp, manifest list, "
        "sequence number and operation may not",
        "lookups of ids that are no longer retained are not judged",
        "a failed commit is an append whose pointer write raises OSError once; whether it leaves orphan files is not judged here",
        "STEP-BACK moves the virtual clock back 5 ms immediately before an append / delete commit",
    ]
    return rep


def replay(case: Dict[str, Any]) -> Dict[str, Any]:
    det = case["detail"]
    v = dict(det["variant"])
    v["alphabet"] = list(C09_ALPHABET)
    ops = [hist.parse_op(x) for x in det["history"]]
    rep = Report(PROP, case.get("tier", "quick"), case.get("seed", 0), LEVEL)
    cwd = os.getcwd()
    try:
        hist.run_history(v, ops, "checks.c09", rep, case.get("seed", 0))
    finally:
        os.chdir(cwd)
    hit = [x for x in rep.violations.values() if x["key"] == case["key"]]
    return {"violated": bool(hit), "matching": hit[:1], "all_keys": [x["key"] for x in rep.violations.values()]}
