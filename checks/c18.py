"""C18 - creating a table is idempotent and race-safe.

E1: 2-3 concurrent creators / openers / first appenders at shared-storage-
operation granularity over the initial states {absent, healthy with data,
pointer lost, metadata v0 written but pointer missing}, local and CAS-S3.

Oracle: one table uuid across all callers and on storage; an existing table's
uuid, persisted schema and rows are never replaced; on a fresh location the
persisted schema is exactly one of the supplied ones; acknowledged first
appends are present exactly once; a schema-less append on a schema-less table
raises ValueError; no caller sees an undocumented exception.
"""
from __future__ import annotations

import os
from typing import Any, Dict, List, Optional, Tuple

from dsmc import reader
from dsmc.commitworld import TableWorld, outcome_of
from dsmc.env import ENV
from dsmc.report import Report, pmap
from dsmc.sched import DONE, Execution, Explorer
from dsmc.tables import row
from dsmc.worlds import root_actor

LEASE_JUMP = 61.0  # the S3 metadata lock's lease is 60 s

FIELDS_P = [{"id": 1, "name": "a", "type": "long", "required": True}, {"id": 2, "name": "s", "type": "string", "required": False}]
FIELDS_B = [{"id": 1, "name": "b", "type": "long", "required": True}]
# same schema_id as A, one more (optional) column: two releases of one application racing to create the table
FIELDS_C = FIELDS_P + [{"id": 3, "name": "e", "type": "string", "required": False}]

STATES = ["absent", "healthy", "pointer_lost", "v0_no_pointer"]
COMBOS = [("createA", "createB"), ("createA_append", "createB"), ("createA", "open_or_create"),
          ("create_none_append", "createA"), ("createA_append", "createA_append")]


def _schema(kind: str):
    from datashard import Schema

    if kind == "P":
        return Schema(schema_id=7, fields=[dict(f) for f in FIELDS_P])
    if kind == "A":
        return Schema(schema_id=1, fields=[dict(f) for f in FIELDS_P])
    if kind == "B":
        return Schema(schema_id=2, fields=[dict(f) for f in FIELDS_B])
    if kind == "C":
        return Schema(schema_id=1, fields=[dict(f) for f in FIELDS_C])
    raise ValueError(kind)


class C18World(TableWorld):
    def __init__(self, backend: str, init: str, actors: Tuple[str, ...], rep: Report, cfg: Dict[str, Any]):
        self.init = init
        super().__init__(backend, "separate", 0, self._template, name="c18")
        self.kinds = actors
        self.rep, self.cfg = rep, cfg
        self.outcomes: Dict[Any, int] = {}
        md = self._disk_md()
        self.base_uuid = md["table_uuid"] if md else None
        self.base_rows = self._disk_rows(md) if md else []

    def _template(self, w: "TableWorld") -> None:
        from datashard import create_table

        if self.init == "absent":
            return
        t = create_table(w.location, _schema("P"))
        if self.init in ("healthy", "pointer_lost"):
            t.append_records([row(0)])
        if self.init in ("pointer_lost", "v0_no_pointer"):
            if w.backend == "local":
                os.remove(os.path.join(w.root, reader.HINT))
                w.adapter._set(reader.HINT, None)
            else:
                w.s3w.s3._del(f"{w.location}/{reader.HINT}")

    def reset(self) -> None:
        if self.backend == "local":
            self.adapter.reset()
        else:
            self.s3w.s3.load_state(self._template_state)
            self.adapter.reset()
            self.lock_writer = None
            if self._lock_spy not in self.s3w.s3.after:
                self.s3w.s3.after.append(self._lock_spy)
        ENV.clock = self.t_start
        self.handles = []

    # ---- deviation: a creator's process (heartbeat thread included) is paused while it owns the metadata lock and the
    # clock passes the lease; it is resumed at any later point -------------------------------------------------------
    def _lock_spy(self, req: Any, res: Any) -> None:
        if req.key.endswith("/.locks/metadata.lock") and not isinstance(res, BaseException):
            if req.op == "PUT":
                self.lock_writer = root_actor(req.actor)
            elif req.op == "DELETE":
                self.lock_writer = None

    def extra_options(self, ex: Execution) -> List[Tuple]:
        opts: List[Tuple] = []
        for a in ex.actors:
            if "." in a.name:
                continue
            if a.frozen:
                opts.append(("resume", a.name))
            elif (a.state != DONE and ex.jumps < self.cfg.get("max_pauses", 0) and a.steps > 0
                  and a.name in self.cfg.get("pause_only", [a.name]) and self.lock_writer == a.name):
                opts.append(("pause+61s", a.name))
        return opts

    def apply_extra(self, ex: Execution, opt: Tuple) -> None:
        kind, name = opt
        for a in ex.actors:
            if root_actor(a.name) == name:
                a.frozen = (kind != "resume")
        if kind != "resume":
            ENV.clock = round(ENV.clock + LEASE_JUMP, 6)
            ex.jumps += 1

    # ---- independent view of the committed state ---------------------------
    def _disk_md(self) -> Optional[Dict[str, Any]]:
        name = reader.pointer_target(self.view)
        if name is None:
            files = reader.metadata_files(self.view)
            if not files:
                return None
            name = files[-1][1]
        return reader.read_metadata(self.view, name)

    def _disk_rows(self, md: Dict[str, Any]) -> List[Tuple]:
        st = reader.TableState(self.view, name=md["__file__"], all_snaps=False)
        if st.errors:
            raise reader.ReadError(str(st.errors))
        return st.current_rows()

    # ---- actors ----------------------------------------------------------------
    def actors(self):
        return [(chr(ord("A") + i), self._body(i, k)) for i, k in enumerate(self.kinds)]

    def _body(self, i: int, kind: str):
        loc = self.location

        def seen(t: Any, extra: Optional[Dict[str, Any]] = None) -> Dict[str, Any]:
            md = t.metadata_manager.refresh()
            sch = t._get_current_schema()
            out = {"uuid": md.table_uuid if md else None, "fields": [f["name"] for f in (sch.fields if sch else [])]}
            out.update(extra or {})
            return out

        def body():
            from datashard import create_table, load_table

            if kind == "createA":
                return seen(create_table(loc, _schema("A")))
            if kind == "createB":
                return seen(create_table(loc, _schema("B")))
            if kind == "open_or_create":
                try:
                    t = load_table(loc)
                except ValueError:
                    t = create_table(loc, _schema("A"))
                return seen(t)
            if kind in ("createA_append", "create_none_append", "createC_append"):
                t = (create_table(loc, _schema("A")) if kind == "createA_append" else
                     create_table(loc, _schema("C")) if kind == "createC_append" else create_table(loc))
                try:
                    ok = t.append_records([row(10 + i)])
                    return seen(t, {"append": bool(ok)})
                except ValueError as e:
                    return seen(t, {"append": "ValueError", "msg": str(e)[:80]})
            raise ValueError(kind)

        return body

    def check(self, ex: Execution) -> None:
        acts = [a for a in ex.actors if "." not in a.name]
        problems: List[str] = []
        if ex.deadlock:
            problems.append("deadlock")
        results: Dict[str, Dict[str, Any]] = {}
        for a in acts:
            kind, val = outcome_of(a)
            if kind == "raise" and ex.jumps and val == "TimeoutError" and "acquire S3 lock" in str(a.exc):
                # 61 s passed (pause deviation) while this caller was waiting for the metadata lock: its 30 s lock
                # timeout is the documented answer; it made no acknowledged change
                self.rep.add("callers_timed_out_on_the_lock_during_a_pause")
            elif kind == "raise":
                problems.append(f"{a.name} raised {val}: {str(a.exc)[:100]}")
            else:
                results[a.name] = val
        md = None
        try:
            md = self._disk_md()
        except reader.ReadError as e:
            problems.append(f"final metadata unreadable: {e}")
        if md is None and not problems:
            problems.append("no table on storage after all creators returned")
        if md is not None:
            uuids = {r["uuid"] for r in results.values()} | {md["table_uuid"]}
            if len(uuids) != 1:
                problems.append(f"callers / storage disagree on the table uuid: {sorted(map(str, uuids))}")
            if self.base_uuid is not None and md["table_uuid"] != self.base_uuid:
                problems.append("an existing table was re-initialised (uuid replaced)")
            cur = [s for s in md["schemas"] if s["schema_id"] == md["current_schema_id"]]
            fields = [f["name"] for f in (cur[0]["fields"] if cur else [])]
            if self.base_uuid is not None:
                if fields != ["a", "s"]:
                    problems.append(f"persisted schema of an existing table replaced: {fields}")
            else:
                supplied = []
                for k in self.kinds:
                    supplied.append({"createA": ["a", "s"], "createA_append": ["a", "s"], "createB": ["b"],
                                     "open_or_create": ["a", "s"], "create_none_append": [],
                                     "createC_append": ["a", "s", "e"]}[k])
                if fields not in supplied:
                    problems.append(f"persisted schema {fields} is none of the supplied {supplied}")
            for n, r in results.items():
                if r["fields"] != fields:
                    problems.append(f"{n} sees schema {r['fields']} but storage has {fields}")
            try:
                rows = self._disk_rows(md)
            except reader.ReadError as e:
                rows = None
                problems.append(f"final table unreadable: {e}")
            if rows is not None:
                want = list(self.base_rows)
                for i, a in enumerate(acts):
                    r = results.get(a.name, {})
                    if r.get("append") is True:
                        # a record lacking an optional column of the persisted schema is stored with NULL there
                        want.append(reader.canon_row(dict({f: None for f in fields}, **row(10 + i))))
                    if r.get("append") == "ValueError" and fields == ["a", "s"] and "No schema" in r.get("msg", ""):
                        problems.append(f"{a.name}: schema-less append refused although the table has a schema")
                    if r.get("append") is True and not fields:
                        problems.append(f"{a.name}: schema-less append on a schema-less table succeeded")
                if sorted(rows, key=repr) != sorted(want, key=repr):
                    problems.append(f"rows {rows} != pre-existing + acknowledged appends {want}")
        okey = tuple(sorted((n, tuple(sorted((k, str(v)) for k, v in r.items() if k != "uuid"))) for n, r in results.items()))
        self.outcomes[okey] = self.outcomes.get(okey, 0) + 1
        self.rep.nontrivial((self.cfg["id"], okey))
        if problems:
            self.rep.violation(
                {"backend": self.backend, "init": self.init, "actors": list(self.kinds),
                 "problem": problems[0].split(":")[0][:70]},
                {"config": self.cfg, "choices": ex.choices, "schedule": ex.trace, "problems": problems,
                 "shared_keys": sorted(ex.ex.shared_keys), "shared_prefixes": sorted(ex.ex.shared_prefixes),
                 "results": results})


def run_config(cfg: Dict[str, Any]) -> Dict[str, Any]:
    rep = Report("C18", cfg["tier"], cfg["seed"], "model_checking")
    w = C18World(cfg["backend"], cfg["init"], tuple(cfg["actors"]), rep, cfg)
    try:
        exp = Explorer(w, bound=cfg.get("bound"), seed=cfg["seed"], clock_mode="TICK", horizon=4000,
                       max_exec=cfg.get("max_exec"), has_extra=bool(cfg.get("max_pauses")))
        exp.on_complete = w.check
        stats = exp.explore()
        exp.visited.clear()
        sample = exp.execute([]) if cfg.get("sample") else None
    finally:
        w.close()
    rep.add("states", stats["states"])
    rep.add("transitions", stats["transitions"])
    rep.add("executions", stats["executions"])
    rep.add("traces_validated_against_impl", stats["complete"])
    rep.add("determinism_replays", stats["determinism_replays"])
    rep.add("configs")
    rep.setmax("max_depth", stats["max_depth"])
    rep.cov.setdefault("per_config", {})[cfg["id"]] = stats["executions"]
    rep.cov.setdefault("distinct_outcomes", {})[cfg["id"]] = len(w.outcomes)
    if stats["capped"] or exp.cap_hit:
        rep.caps.append(f"{cfg['id']}: cap hit")
    if sample is not None:
        rep.sample({"config": cfg["id"], "default_schedule": sample.trace[:60]})
    return rep.part()


def configs(tier: str, seed: int) -> List[Dict[str, Any]]:
    out = []

    def add(backend, init, actors, bound=None, sample=False, max_pauses=0, pause_only=None):
        cid = f"{backend}/{init}/{'+'.join(actors)}" + (f"/b{bound}" if bound is not None else "") \
            + (f"/pauses{max_pauses}" if max_pauses else "")
        import os as _os

        out.append({"id": cid, "backend": backend, "init": init, "actors": list(actors), "bound": bound,
                    "tier": tier, "seed": seed, "sample": sample, "max_pauses": max_pauses,
                    **({"pause_only": pause_only} if pause_only else {}),
                    "max_exec": int(_os.environ["DSMC_MAX_EXEC"]) if _os.environ.get("DSMC_MAX_EXEC") else None})

    light = [("createA", "createB"), ("createA", "open_or_create")]
    heavy = [("createA_append", "createB"), ("create_none_append", "createA"), ("createA_append", "createA_append"),
             ("createA_append", "createC_append")]
    k = seed
    for init in STATES:
        for combo in light:
            # existing-table states: creators only read, tiny and unbounded; fresh location: the real race
            bound = None if (init != "absent" or tier != "quick") else 2
            if tier == "quick":
                add(("s3", "local")[k % 2], init, combo, bound=bound, sample=(init == "absent" and combo == light[0]))
                k += 1
            else:
                add("s3", init, combo, bound=bound, sample=(init == "absent" and combo == light[0]))
                add("local", init, combo, bound=bound)
        for combo in heavy:
            hb = (1 if combo in heavy[2:] else 2) if tier == "quick" else (2 if combo in heavy[2:] else 3)
            if tier == "quick":
                add(("s3", "local")[k % 2], init, combo, bound=hb)
                k += 1
            else:
                add("s3", init, combo, bound=hb)
                add("local", init, combo, bound=hb)
    # a creator paused past its lease while holding the metadata lock: the second line of defence
    # (create-if-absent pointer write) must still let exactly one initialisation win
    for init in (("absent", "v0_no_pointer") if tier == "quick" else STATES):
        add("s3", init, ("createA", "createA_append"), bound=0 if tier == "quick" else 1, max_pauses=1, pause_only=["A"])
    if tier != "quick":
        add("s3", "absent", ("createA_append", "createB"), bound=1, max_pauses=1)
    if tier == "quick":
        add("s3", "absent", ("createA_append", "createB", "open_or_create"), bound=0)
    else:
        for b in ("s3", "local"):
            for init in STATES:
                add(b, init, ("createA_append", "createB", "open_or_create"), bound=2)
    return out


def run(tier: str, seed: int) -> Report:
    rep = Report("C18", tier, seed, "model_checking")
    for part in pmap("checks.c18", "run_config", configs(tier, seed)):
        rep.merge(part)
    rep.cov["exhaustive"] = not rep.caps
    rep.cov["rule"] = ("one execution = one complete interleaving of the creators/openers on the real code; "
                       "non-trivial = distinct (config, per-caller view: schema seen, append outcome)")
    rep.assumptions += [
        "'latest committed version' of the final state is resolved by the independent reader: the pointer target if the pointer "
        "is well formed, else the highest metadata version on storage",
        "an append that fails validation against the schema that won (ValueError) counts as a documented, traceless rejection",
    ]
    return rep


def replay(case: Dict[str, Any]) -> Dict[str, Any]:
    d = case["detail"]
    cfg = d["config"]
    rep = Report("C18", cfg["tier"], cfg["seed"], "model_checking")
    w = C18World(cfg["backend"], cfg["init"], tuple(cfg["actors"]), rep, cfg)
    try:
        exp = Explorer(w, seed=cfg["seed"], clock_mode="TICK", has_extra=bool(cfg.get("max_pauses")))
        exp.shared_keys, exp.shared_prefixes = set(d["shared_keys"]), set(d["shared_prefixes"])
        ex = exp.execute(d["choices"])
        w.check(ex)
    finally:
        w.close()
    return {"violated": bool(rep.violations), "schedule": ex.trace, "violations": list(rep.violations.values())}
