"""C16 - commits are durable: the pointer never outruns the data it references.

Engine E3c (DESIGN.md 2.4): the real local write path runs over the os-level
seams; every traced call feeds a POSIX durability model; after *every* trace
event and for *every* subset of not-yet-durable effects the surviving tree is
materialised (in memory) and checked: if the surviving pointer names metadata
M, then M and every manifest list, manifest and data file reachable from M
survive with exactly their final content.
"""
from __future__ import annotations

import hashlib
import os
from typing import Any, Dict, List, Optional, Tuple

from dsmc import reader
from dsmc.durable import TORN, DictView, DurabilityModel
from dsmc.env import ENV
from dsmc.localfs import _REAL_OPEN, install_local_seams
from dsmc.report import Report
from dsmc.tables import fresh_dir, row, schema, use_local

MAX_PENDING = 12


def _cls(path: str) -> str:
    b = os.path.basename(path)
    if path.startswith("data/"):
        return "data"
    if b.startswith("manifest_list_"):
        return "manifest_list"
    if b.startswith("manifest_"):
        return "manifest"
    if b.endswith(".metadata.json"):
        return "metadata"
    return "other"


class Listener:
    def __init__(self, root: str, rep: Report, history_name: str):
        self.model = DurabilityModel(root)
        self.rep = rep
        self.hist = history_name
        self.op = "?"
        self.reach_cache: Dict[bytes, List[str]] = {}
        self.last_sig: Any = None
        self.prefixes = 0
        self.max_pending = 0
        self.trace: List[str] = []
        self.pointer_states = 0
        self.dur_ver = 0
        self.n_fsync = 0
        self.fail_fsync: Any = None
        self.fsync_failed_on: Any = None
        self.ops_raised: List[str] = []

    def before(self, ev: Any) -> None:
        # fault variant: the k-th fsync of the history (file or directory) fails once with EIO
        if ev.fn == "fsync" and ev.fd not in self.model.fd_dir:  # file-content fsyncs only (see assumptions)
            self.n_fsync += 1
            if self.fail_fsync is not None and self.n_fsync == self.fail_fsync:
                self.fsync_failed_on = ev.label().replace(self.model.root, "")
                raise OSError(5, "injected: fsync failed")

    def after(self, ev: Any, res: Any, exc: Any) -> None:
        if exc is not None:
            return
        payload = None
        if ev.fn == "write":
            payload = ev.data
        elif ev.fn == "pq_close" and ev.path:
            with _REAL_OPEN(ev.path, "rb") as f:
                payload = f.read()
        elif ev.fn == "replace" and ev.path2:
            # what is REALLY published under the new name (cross-check of the traced write path)
            try:
                with _REAL_OPEN(ev.path2, "rb") as f:
                    payload = f.read()
            except OSError:
                payload = None
        self.model.feed(ev, res, payload)
        self.trace.append(ev.label().replace(self.model.root, ""))
        self.rep.add("transitions")
        self.evaluate(ev)

    # -- oracle ------------------------------------------------------------
    def reachable(self, md_bytes: bytes) -> Optional[List[str]]:
        h = hashlib.md5(md_bytes).digest()
        if h in self.reach_cache:
            return self.reach_cache[h]
        vol = DictView({p: i.content for p, i in self.model.vol.items()})
        import json

        try:
            md = json.loads(md_bytes.decode())
            out: List[str] = []
            for s in md.get("snapshots", []):
                sv = reader.SnapView(vol, s, rows=False)
                out.extend(sorted(sv.files()))
            res: Optional[List[str]] = sorted(set(out))
        except Exception as e:  # the *volatile* view must always parse
            res = None
            self.rep.violation({"history": self.hist, "op": self.op, "problem": "volatile-view-unreadable"},
                               {"error": repr(e)})
        self.reach_cache[h] = res
        return res

    def evaluate(self, ev: Any) -> None:
        m = self.model
        sig = (tuple((e.kind, e.idx) for e in m.relevant_pending()), len(m.dur), tuple(sorted(m.dur)))
        if sig == self.last_sig:
            return
        self.last_sig = sig
        self.prefixes += 1
        npend = len(m.relevant_pending())
        self.max_pending = max(self.max_pending, npend)
        self.rep.setmax("max_pending_incl_projected_out", len(m.pending))
        if npend > MAX_PENDING:
            c = f"pending>{MAX_PENDING} at {self.hist}/{self.op}: only subsets of the newest {MAX_PENDING} effects enumerated"
            if c not in self.rep.caps:
                self.rep.caps.append(c)
        for persisted, files in m.crash_states(MAX_PENDING):
            self.rep.add("states")
            ptr = files.get(reader.HINT)
            if ptr is None or ptr is TORN:
                continue
            try:
                name = ptr.decode().strip()
            except Exception:
                continue
            self.pointer_states += 1
            self.rep.nontrivial((self.hist, self.op, name, persisted))
            mdp = f"metadata/{name}"
            vol_md = m.vol.get(mdp)
            problems: List[Tuple[str, str]] = []
            if vol_md is None:
                continue  # pointer names something the process never wrote (legacy) - not this property
            got = files.get(mdp)
            if got is None:
                problems.append((mdp, "missing"))
            elif got is TORN or got != vol_md.content:
                problems.append((mdp, "torn"))
            reach = self.reachable(vol_md.content) or []
            for p in reach:
                want = m.vol.get(p)
                g = files.get(p)
                if g is None:
                    problems.append((p, "missing"))
                elif g is TORN or (want is not None and g != want.content):
                    problems.append((p, "torn"))
            for p, prob in problems:
                self.rep.violation(
                    {"history": self.hist, "op": self.op, "file_class": _cls(p), "problem": prob},
                    {"file": p, "pointer": name, "after_event": self.trace[-1], "event_index": len(self.trace) - 1,
                     "persisted_pending_effects": list(persisted),
                     "pending": [e.label() for e in m.pending],
                     "trace_tail": self.trace[-25:]})


def _history(name: str, root: str, lst: Listener) -> None:
    from datashard import create_table

    use_local()
    lst.op = "create"
    try:
        t = create_table(root, schema())
    except Exception as e:  # noqa
        if lst.fail_fsync is None:
            raise
        lst.ops_raised.append(f"create:{type(e).__name__}")
        try:
            t = create_table(root, schema())  # the fault fires once: the retry goes through
        except Exception as e2:  # noqa - what the failed creation left behind cannot be opened or created any more
            lst.rep.violation({"history": lst.hist.split("/")[0], "op": "create", "file_class": "pointer",
                               "problem": "location_unusable_after_a_failed_creation"},
                              {"first_error": repr(e)[:200], "retry_error": repr(e2)[:300], "trace_tail": lst.trace[-12:]})
            return
    steps = HISTORIES[name]
    for st in steps:
        lst.op = st
        try:
            _step(st, t, root, lst)
        except Exception as e:  # noqa - only the injected fsync failure may make an operation fail
            if lst.fail_fsync is None:
                raise
            lst.ops_raised.append(f"{st}:{type(e).__name__}")
        if st == "reopen":
            from datashard import load_table

            t = load_table(root)


def _step(st: str, t: Any, root: str, lst: "Listener") -> None:
    if True:
        if st == "append":
            n = ENV.next_id("row")
            t.append_records([row(n), row(100 + n)])
        elif st == "append2tx":
            with t.new_transaction() as tx:
                tx.append_data([row(200 + ENV.next_id("row"))])
                tx.append_data([row(300 + ENV.next_id("row"))])
        elif st == "delete_file":
            files = t._get_all_data_files()
            with t.new_transaction() as tx:
                tx.delete_files([files[0].file_path])
        elif st == "append_delete_tx":
            files = t._get_all_data_files()
            with t.new_transaction() as tx:
                tx.append_data([row(400 + ENV.next_id("row"))])
                if files:
                    tx.delete_files([files[-1].file_path])
        elif st == "expire":
            ENV.advance(1.0)
            with t.new_transaction() as tx:
                tx.expire_snapshots(int(ENV.clock * 1000) - 500)
        elif st == "delete_snapshot":
            snaps = t.snapshots()
            cur = t.current_snapshot().snapshot_id
            victim = [s["snapshot_id"] for s in snaps if s["snapshot_id"] != cur]
            t.snapshot_manager.delete_snapshot(victim[0] if victim else cur)
        elif st == "delete_current":
            t.snapshot_manager.delete_snapshot(t.current_snapshot().snapshot_id)
        elif st == "gc":
            ENV.advance(7200.0)
            t.garbage_collect(3600_000)
        elif st == "reopen":
            pass
        else:
            raise ValueError(st)


HISTORIES: Dict[str, List[str]] = {
    "h1": ["append", "append", "append2tx", "delete_file", "delete_snapshot", "expire", "append", "gc", "append"],
    "h2": ["append", "append", "delete_file", "append_delete_tx", "delete_current", "reopen", "append", "expire", "gc", "append2tx"],
    "h3": ["append2tx", "append", "expire", "gc", "delete_file", "append", "delete_snapshot", "gc", "append"],
    "h4": ["append", "append", "append", "delete_snapshot", "delete_snapshot", "append_delete_tx", "gc", "reopen", "append"],
}


def run_history(payload: Tuple[Any, ...]) -> Dict[str, Any]:
    name, tier, seed = payload[:3]
    fails = payload[3] if len(payload) > 3 else [None]
    install_local_seams()
    rep = Report("C16", tier, seed, "fault_enumeration")
    for k in fails:
        _run_one(rep, name, seed, k)
    return rep.part()


def count_fsyncs(name: str, seed: int) -> int:
    install_local_seams()
    rep = Report("C16", "quick", seed, "fault_enumeration")
    return _run_one(rep, name, seed, None, judge=False)


def _run_one(rep: Report, name: str, seed: int, fail_fsync: Any, judge: bool = True) -> int:
    ENV.reset(seed)
    root = fresh_dir(f"c16-{name}-{fail_fsync}")
    hname = name if fail_fsync is None else f"{name}/fsync#{fail_fsync}-fails"
    lst = Listener(root, rep, hname)
    lst.fail_fsync = fail_fsync
    if not judge:
        lst.evaluate = lambda ev: None  # type: ignore
    ENV.hooks.append(lst)
    try:
        _history(name, root, lst)
    finally:
        ENV.hooks.remove(lst)
    import shutil

    shutil.rmtree(root, ignore_errors=True)
    if not judge:
        return lst.n_fsync
    if fail_fsync is not None:
        rep.add("histories_with_a_failing_fsync")
        if lst.fsync_failed_on is None:
            rep.add("fsync_fault_positions_not_reached")
        rep.add("operations_failed_by_the_injected_fsync_failure", len(lst.ops_raised))
        rep.cov["max_pending_effects"] = max(rep.cov.get("max_pending_effects", 0), lst.max_pending)
        rep.add("trace_prefixes", lst.prefixes)
        rep.add("pointer_bearing_states", lst.pointer_states)
        return lst.n_fsync
    rep.cov["max_pending_effects"] = lst.max_pending
    rep.add("trace_prefixes", lst.prefixes)
    rep.add("pointer_bearing_states", lst.pointer_states)
    rep.add("histories")
    rep.add("files_published_with_untraced_content", lst.model.untraced_content)
    rep.cov.setdefault("unsynced_new_directories_informational", [])
    for d in sorted(lst.model.unsynced_dirs):
        if d not in rep.cov["unsynced_new_directories_informational"]:
            rep.cov["unsynced_new_directories_informational"].append(d)
    rep.sample({"history": name, "ops": ["create"] + HISTORIES[name],
                "trace_excerpt": lst.trace[40:70]})
    return lst.n_fsync


def run(tier: str, seed: int) -> Report:
    from dsmc.report import pmap

    rep = Report("C16", tier, seed, "fault_enumeration")
    names = ["h1", "h2"] if tier == "quick" else list(HISTORIES)
    payloads: List[Tuple[Any, ...]] = [(n, tier, seed) for n in names]
    # fault variants: every single file-content fsync of the history fails once; the operation it hits
    # may fail, but no surviving pointer may ever reference something that is not durable
    for n in (names[:1] if tier == "quick" else names):
        total = count_fsyncs(n, seed)
        ks = list(range(1, total + 1))
        step = max(1, len(ks) // 14)
        for i in range(0, len(ks), step):
            payloads.append((n, tier, seed, ks[i:i + step]))
        rep.add("fsync_fault_positions", total)
    for part in pmap("checks.c16", "run_history", payloads):
        rep.merge(part)
    rep.cov["evaluations"] = rep.cov.get("states", 0)
    rep.cov["exhaustive"] = not rep.caps
    rep.cov["rule"] = ("every prefix of the traced os-level call sequence (write/fsync/rename/unlink/dir-fsync) of each "
                       "operation of each history x every subset of not-yet-durable effects; a state is non-trivial "
                       "when a well-formed pointer survives in it (distinct = (history, op, pointer target, persisted subset))")
    rep.assumptions += [
        "POSIX-style durability: content durable at fsync(fd), directory entries at fsync(dirfd); rename atomic",
        "pyarrow's writer output is volatile until the library's own fsync of the temp file",
        "a file's own directory entry is judged; never-synced *ancestor* directories created by makedirs are listed, not judged",
        "fault variants: each single file-content fsync of a history fails once with EIO (the operation it hits may fail; no "
        "surviving pointer may reference the unflushed file). Failing DIRECTORY fsyncs are not injected: the library documents "
        "directory fsync as best effort because some platforms do not support it",
    ]
    return rep


def replay(case: Dict[str, Any]) -> Dict[str, Any]:
    part = run_history((case["key"]["history"], "quick", case.get("seed", 0)))
    hit = [v for v in part["violations"].values() if v["key"] == case["key"]]
    return {"violated": bool(hit), "matching": hit[:1]}
