#!/bin/bash
# usage: tools/runall.sh [quick|thorough] [ids...]  - runs the registered checks one after another
tier=${1:-quick}; shift
ids=${@:-$(python3 -c "import json;print(' '.join(c['property_id'] for c in json.load(open('/verif/MANIFEST.json'))['checks']))")}
cd /verif
for id in $ids; do
  s=$(date +%s)
  timeout -k 1 ${TMO:-1500} ./check $id --tier $tier > /tmp/run_$id.out 2>&1 < /dev/null
  rc=$?
  e=$(date +%s)
  echo "$id rc=$rc wall=$((e-s))s viol=$(grep -c '^VIOLATION' /tmp/run_$id.out) known=$(grep -c '^KNOWN-FINDING' /tmp/run_$id.out)"
done
