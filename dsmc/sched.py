"""E1 - interleaving explorer on the real code (DESIGN.md 2.4).

Actors are real threads running unmodified library calls.  Exactly one actor
runs at a time (baton = one semaphore per actor).  An actor gives the baton
back only immediately *before* a visible operation on an object shared with
another actor (`point`), or when it blocks (scheduler-aware RLock / Event /
Thread.join / sleep).  The explorer enumerates every choice at those points by
stateless replay, with a visited-state cache and optional deviation bounds
(preemptions, clock jumps).
"""
from __future__ import annotations

import gc
import os
import sys
import threading
import traceback
from typing import Any, Callable, Dict, List, Optional, Sequence, Set, Tuple

from .env import ENV, REAL_TIME
from .report import HarnessError, progress

READY, RUNNING, BLOCKED, PARKED, WAITEV, JOINING, DONE = "ready", "running", "blocked", "parked", "waitev", "joining", "done"

WATCHDOG_S = 300.0  # generous: the machine may be heavily loaded; a hang is a harness error, not a verdict


class _Abort(BaseException):
    pass


class Op:
    __slots__ = ("kind", "key", "label")

    def __init__(self, kind: str, key: str, label: str = ""):
        self.kind, self.key, self.label = kind, key, label or f"{kind} {key}"

    def __repr__(self) -> str:
        return self.label


START = Op("s", "", "start")


class Actor:
    def __init__(self, name: str, fn: Callable[[], Any], idx: int):
        self.name, self.fn, self.idx = name, fn, idx
        self.sem = threading.Semaphore(0)
        self.state = READY
        self.pending: Op = START
        self.obs = 0
        self.result: Any = None
        self.exc: Optional[BaseException] = None
        self.aborted = False
        self.wake: Optional[float] = None
        self.parked_ver = 0
        self.blocked_on: Any = None
        self.wait_ev: Any = None
        self.join_target: Optional["Actor"] = None
        self.thread: Optional[threading.Thread] = None
        self.return_to: Optional["Actor"] = None
        self.steps = 0
        self.frozen = False  # "process paused" (C08): not schedulable

    def observe(self, x: Any) -> None:
        self.obs = hash((self.obs, x))

    def key(self) -> Tuple:
        return (self.name, self.state, self.obs, self.pending.label,
                None if self.wake is None else round(self.wake, 6),
                self.blocked_on.name if self.blocked_on is not None else None,
                self.join_target.name if self.join_target is not None else None, self.frozen)


class Execution:
    """One run of the closed system under a given choice prefix."""

    def __init__(self, explorer: "Explorer", prefix: Sequence[int], fps: Sequence[Any]):
        self.ex = explorer
        self.prefix = list(prefix)
        self.fps = list(fps)
        self.actors: List[Actor] = []
        self.ctrl = threading.Semaphore(0)
        self.tls = threading.local()
        self.passthrough = False
        self.aborting = False
        self.write_ver = 0
        self.choices: List[int] = []
        self.points: List[Dict[str, Any]] = []  # one per choice point
        self.trace: List[str] = []  # one line per scheduling decision
        self.pruned = False
        self.complete = False
        self.deadlock = False
        self.capped = False
        self.last: Optional[Actor] = None
        self.preempts = 0
        self.jumps = 0
        self.clock_jumped = 0.0
        self.n_sched = 0
        self.log: List[Tuple] = []  # (actor, op label) of every visible op executed

    # ---- helpers used by seams -------------------------------------------
    def current(self) -> Optional[Actor]:
        return getattr(self.tls, "actor", None)

    def manages_current(self) -> bool:
        return self.current() is not None and not self.passthrough

    def observe(self, x: Any) -> None:
        a = self.current()
        if a is not None:
            a.observe(x)

    def observe_clock(self, t: float) -> None:
        a = self.current()
        if a is not None:
            a.observe(("clk", round(t, 6)))

    def bump(self) -> None:
        self.write_ver += 1

    # ---- scheduling points --------------------------------------------------
    def point(self, op: Op) -> None:
        a = self.current()
        if a is None or self.passthrough:
            return
        self.ex.footprint(a.name, op)
        if not self.ex.is_shared(op):
            return
        a.pending = op
        a.state = READY
        self._yield(a)
        self.log.append((a.name, op.label))

    def _yield(self, a: Actor) -> None:
        """Give the baton back and wait to be scheduled again."""
        rt = a.return_to
        if rt is not None:
            a.return_to = None
            rt.sem.release()
        else:
            self.ctrl.release()
        a.sem.acquire()
        if self.aborting:
            raise _Abort()
        a.state = RUNNING

    def sleep(self, d: float, strict: bool = False) -> None:
        """Library sleeps (retry / poll loops) may end early when the shared
        state changed - that only shortens a delay.  `strict` sleeps (harness
        bodies that must really hold something for a virtual duration) end only
        when the clock reaches the wake time."""
        a = self.current()
        if a is None or self.passthrough:
            return
        a.state = PARKED
        a.wake = ENV.clock + max(0.0, float(d))
        a.parked_ver = float("inf") if strict else self.write_ver
        a.pending = Op("z", "", f"sleep({d:.3f})")
        self._yield(a)
        a.wake = None

    def block_on(self, lock: Any) -> None:
        a = self.current()
        a.state = BLOCKED
        a.blocked_on = lock
        self._yield(a)
        a.blocked_on = None

    def wait_event(self, ev: Any, timeout: Optional[float]) -> None:
        a = self.current()
        a.state = WAITEV
        a.wait_ev = ev
        a.wake = None if timeout is None else ENV.clock + timeout
        a.pending = Op("z", "", f"event.wait({timeout})")
        self._yield(a)
        a.wait_ev = None
        a.wake = None

    def join(self, target: Actor, timeout: Optional[float]) -> None:
        a = self.current()
        if target.state == DONE:
            return
        a.state = JOINING
        a.join_target = target
        a.wake = None if timeout is None else ENV.clock + timeout
        a.pending = Op("z", "", f"join({target.name},{timeout})")
        self._yield(a)
        a.join_target = None
        a.wake = None

    # ---- actors -------------------------------------------------------------
    def add_actor(self, name: str, fn: Callable[[], Any]) -> Actor:
        a = Actor(name, fn, len(self.actors))
        self.actors.append(a)
        t = threading.Thread(target=self._main, args=(a,), name=f"actor-{name}", daemon=True)
        a.thread = t
        t.start()
        return a

    def spawn_from(self, parent: Optional[Actor], name: str, fn: Callable[[], Any]) -> Actor:
        """Thread.start() inside the system under test: the child runs at once up
        to its first scheduling point (pure local computation commutes), then
        the parent continues."""
        child = self.add_actor(name, fn)
        if parent is None or self.passthrough:
            return child
        child.return_to = parent
        child.state = RUNNING
        child.sem.release()
        parent.sem.acquire()
        if self.aborting:
            raise _Abort()
        return child

    def _main(self, a: Actor) -> None:
        ENV.set_actor(a.name)
        self.tls.actor = a
        a.sem.acquire()
        try:
            if not self.aborting:
                a.state = RUNNING
                a.result = a.fn()
        except _Abort:
            a.aborted = True
        except BaseException as e:  # noqa - the actor's exception is data for the oracle
            a.exc = e
        finally:
            a.state = DONE
            a.pending = Op("d", "", "done")
            self.write_ver += 1
            rt = a.return_to
            if rt is not None:
                a.return_to = None
                rt.sem.release()
            else:
                self.ctrl.release()

    # ---- the scheduler loop ---------------------------------------------------
    def _enabled(self, a: Actor) -> bool:
        if a.frozen:
            return False
        st = a.state
        if st == READY:
            return True
        if st == BLOCKED:
            return a.blocked_on.owner is None
        if st == PARKED:
            return ENV.clock >= a.wake or self.write_ver > a.parked_ver
        if st == WAITEV:
            return a.wait_ev.flag or (a.wake is not None and ENV.clock >= a.wake)
        if st == JOINING:
            return a.join_target.state == DONE or (a.wake is not None and ENV.clock >= a.wake)
        return False

    def state_key(self) -> Tuple:
        # under a preemption bound the actor that ran last is part of the state: continuing it is free, switching
        # away from it costs a preemption, so two arrivals at the same storage / actor state with different running
        # actors have different continuations within the same remaining budget
        running = None
        if self.ex.bound is not None and self.last is not None and self._enabled(self.last):
            running = self.last.name
        return (self.ex.world.digest(), round(ENV.clock, 6), self.jumps,
                tuple(sorted(a.key() for a in self.actors)), running)

    def run(self) -> "Execution":
        ex = self.ex
        ENV.sched = self
        t_start = REAL_TIME()
        try:
            for name, fn in ex.world.actors():
                self.add_actor(name, fn)
            for a in self.actors:  # actors a world releases itself through an extra option (e.g. "starts during the stall")
                if a.name in getattr(ex.world, "initially_frozen", ()):
                    a.frozen = True
            while True:
                ready = [a for a in self.actors if self._enabled(a)]
                extra = ex.world.extra_options(self) if ex.has_extra else []
                tick_opt: List[Any] = []
                if not ready:
                    timed = [a.wake for a in self.actors if a.wake is not None and a.state in (PARKED, WAITEV, JOINING)
                             and not a.frozen]
                    if not extra:
                        if all(a.state == DONE for a in self.actors):
                            self.complete = True
                            break
                        if timed:
                            ENV.clock = max(ENV.clock, min(timed))
                            continue
                        self.deadlock = True
                        break
                    if timed:
                        tick_opt = [("tick", round(max(ENV.clock, min(timed)), 6))]
                if self.n_sched >= ex.horizon:
                    self.capped = True
                    break
                # canonical option order: the running actor first (if still enabled), then by index
                opts: List[Any] = sorted(ready, key=lambda a: (a is not self.last, a.idx))
                jump_opts: List[Any] = []
                if ready and self.jumps < ex.max_jumps:
                    jump_opts = [("jump", amt) for amt in ex.jump_amounts]
                all_opts = opts + tick_opt + jump_opts + extra
                if len(all_opts) == 1:
                    chosen = all_opts[0]
                else:
                    i = len(self.choices)
                    fp = hash((round(ENV.clock, 6), tuple((o.name, o.pending.label) if isinstance(o, Actor) else o
                                                          for o in all_opts)))
                    if i < len(self.prefix):
                        c = self.prefix[i]
                        if i < len(self.fps) and self.fps[i] != fp:
                            raise HarnessError(
                                f"replay divergence at choice point {i}: expected fingerprint {self.fps[i]} got {fp}; "
                                f"options now {[str(o) if not isinstance(o, Actor) else (o.name, o.pending.label) for o in all_opts]}; "
                                f"trace tail {self.trace[-6:]}")
                        if c >= len(all_opts):
                            raise HarnessError(f"replay divergence: choice {c} out of range at point {i}")
                    else:
                        key = self.state_key()
                        remaining = (ex.bound - self.preempts) if ex.bound is not None else 0
                        seen = ex.visited.get(key)
                        if seen is not None and seen >= remaining:
                            self.pruned = True
                            ex.stats["pruned"] += 1
                            break
                        ex.visited[key] = remaining
                        c = 0
                    costs = []
                    for j, o in enumerate(all_opts):
                        if isinstance(o, Actor):
                            costs.append(1 if (self.last is not None and o is not self.last and all_opts[0] is self.last) else 0)
                        else:
                            costs.append(0)
                    self.points.append({"n": len(all_opts), "costs": costs, "preempts": self.preempts, "fp": fp,
                                        "kinds": ["a" if isinstance(o, Actor) else o[0] for o in all_opts]})
                    self.choices.append(c)
                    chosen = all_opts[c]
                    if isinstance(chosen, Actor):
                        self.preempts += costs[c]
                self.n_sched += 1
                if isinstance(chosen, tuple):
                    if chosen[0] == "jump":
                        ENV.clock = round(ENV.clock + chosen[1], 6)
                        self.jumps += 1
                        self.clock_jumped += chosen[1]
                        self.trace.append(f"<clock +{chosen[1]}s>")
                    elif chosen[0] == "tick":
                        ENV.clock = max(ENV.clock, chosen[1])
                        self.trace.append("<idle: clock advances to next timer>")
                    else:
                        ex.world.apply_extra(self, chosen)
                        self.trace.append(f"<{chosen[0]} {chosen[1]}>")
                    continue
                a = chosen
                self.trace.append(f"{a.name}: {a.pending.label}")
                self.last = a
                a.steps += 1
                a.sem.release()
                if not self.ctrl.acquire(timeout=WATCHDOG_S):
                    self._dump_hang(a)
            if self.complete:
                ex.stats["complete"] += 1
        finally:
            self._teardown()
            ENV.sched = None
            ex.stats["wall_exec"] += REAL_TIME() - t_start
        return self

    def _dump_hang(self, a: Actor) -> None:
        frames = sys._current_frames()
        st = "".join(traceback.format_stack(frames.get(a.thread.ident))) if a.thread and a.thread.ident in frames else "?"
        self.passthrough = True
        raise HarnessError(f"watchdog: actor {a.name} did not reach a scheduling point within {WATCHDOG_S}s\n{st}")

    def _teardown(self) -> None:
        """Unwind every unfinished actor, one at a time, with all seams in
        pass-through mode so that `finally:` blocks run to completion."""
        self.passthrough = True
        self.aborting = True
        for a in list(self.actors):
            if a.state != DONE:
                a.return_to = None
                a.sem.release()
                if not self.ctrl.acquire(timeout=WATCHDOG_S):
                    raise HarnessError(f"teardown: actor {a.name} did not unwind")
        for a in self.actors:
            if a.thread is not None:
                a.thread.join(timeout=5)


# ---------------------------------------------------------------------------
# scheduler-aware replacements for threading primitives
# ---------------------------------------------------------------------------
class SchedRLock:
    def __init__(self) -> None:
        self.owner: Any = None
        self.count = 0
        self.name = f"rlock:{ENV.actor()}:{ENV.next_id('rlock')}"

    def acquire(self, blocking: bool = True, timeout: float = -1) -> bool:
        s: Optional[Execution] = ENV.sched
        a = s.current() if s is not None else None
        if a is None or s.passthrough:
            me = a if a is not None else threading.get_ident()
            if self.owner is None or self.owner == me or (s is not None and s.passthrough):
                self.owner = me
                self.count += 1
                return True
            raise HarnessError(f"{self.name} contended outside the scheduler")
        if self.owner is a:
            self.count += 1
            return True
        s.point(Op("w", self.name, f"acquire {self.name}"))
        while self.owner is not None:
            if not blocking:
                return False
            s.block_on(self)
        self.owner = a
        self.count = 1
        s.bump()
        return True

    def release(self) -> None:
        self.count -= 1
        if self.count <= 0:
            self.count = 0
            self.owner = None
            s = ENV.sched
            if s is not None:
                s.bump()

    def __enter__(self) -> "SchedRLock":
        self.acquire()
        return self

    def __exit__(self, *a: Any) -> None:
        self.release()


class NoopLock:
    """For critical sections that contain no scheduling point."""

    def acquire(self, *a: Any, **k: Any) -> bool:
        return True

    def release(self) -> None:
        pass

    def __enter__(self) -> "NoopLock":
        return self

    def __exit__(self, *a: Any) -> None:
        pass


class SchedEvent:
    def __init__(self) -> None:
        self.flag = False

    def set(self) -> None:
        self.flag = True
        s = ENV.sched
        if s is not None:
            s.bump()

    def clear(self) -> None:
        self.flag = False

    def is_set(self) -> bool:
        return self.flag

    def wait(self, timeout: Optional[float] = None) -> bool:
        s: Optional[Execution] = ENV.sched
        if self.flag:
            return True
        if s is None or not s.manages_current():
            if timeout is not None and s is None:
                ENV.advance(timeout)
            return self.flag
        s.wait_event(self, timeout)
        return self.flag


class SchedThread:
    def __init__(self, group: Any = None, target: Optional[Callable] = None, name: Optional[str] = None,
                 args: Tuple = (), kwargs: Optional[Dict] = None, daemon: Optional[bool] = None):
        self._target, self._args, self._kwargs = target, args, kwargs or {}
        self.name = name
        self.daemon = daemon
        self._actor: Optional[Actor] = None
        self._real: Optional[threading.Thread] = None

    def start(self) -> None:
        s: Optional[Execution] = ENV.sched
        if s is None or s.passthrough or s.current() is None:
            # outside an exploration: never start a real background thread; the
            # body would only sleep on the virtual clock.
            return
        parent = s.current()
        n = ENV.next_id("thread")
        self._actor = s.spawn_from(parent, f"{parent.name}.t{n}", lambda: self._target(*self._args, **self._kwargs))

    def is_alive(self) -> bool:
        return self._actor is not None and self._actor.state != DONE

    def join(self, timeout: Optional[float] = None) -> None:
        s: Optional[Execution] = ENV.sched
        if self._actor is None or s is None or not s.manages_current():
            return
        s.join(self._actor, timeout)


class ThreadingProxy:
    """Drop-in for the `threading` module attribute of datashard modules."""

    RLock = SchedRLock
    Lock = NoopLock
    Event = SchedEvent
    Thread = SchedThread

    def __getattr__(self, n: str) -> Any:
        return getattr(threading, n)


_thr_installed = [False]


def install_threading_seams() -> None:
    if _thr_installed[0]:
        return
    import datashard.lock_provider as lp
    import datashard.metadata_manager as mm
    import datashard.transaction as tx

    p = ThreadingProxy()
    mm.threading = p
    tx.threading = p
    lp.threading = p
    _thr_installed[0] = True


# ---------------------------------------------------------------------------
# Explorer
# ---------------------------------------------------------------------------
class World:
    """Driver interface (see checks/c01.py for an example)."""

    def reset(self) -> None:  # restore the template store; fresh handles
        raise NotImplementedError

    def actors(self) -> List[Tuple[str, Callable[[], Any]]]:
        raise NotImplementedError

    def digest(self) -> Any:
        raise NotImplementedError

    def check(self, ex: Execution) -> None:  # oracle on a complete execution
        pass

    def extra_options(self, ex: Execution) -> List[Tuple]:
        return []

    def apply_extra(self, ex: Execution, opt: Tuple) -> None:
        pass


class Explorer:
    def __init__(self, world: World, bound: Optional[int] = None, max_jumps: int = 0,
                 jump_amounts: Sequence[float] = (), horizon: int = 2000, max_exec: Optional[int] = None,
                 seed: int = 0, clock_mode: str = "TICK", has_extra: bool = False):
        self.world = world
        self.bound = bound
        self.max_jumps = max_jumps
        self.jump_amounts = list(jump_amounts)
        self.horizon = horizon
        # safety net against run-away configurations: a capped run is reported as capped (never as exhaustive)
        self.max_exec = max_exec if max_exec is not None else int(os.environ.get("DSMC_MAX_EXEC", "60000"))
        # optional wall-clock budget of one configuration (thorough tier); exceeding it is a reported cap
        self.max_wall = float(os.environ.get("DSMC_MAX_WALL", "0") or 0) or None
        self._t_begin = REAL_TIME()
        self.seed = seed
        self.clock_mode = clock_mode
        self.has_extra = has_extra
        self.visited: Dict[Any, int] = {}
        self.shared_keys: Set[str] = set()
        self.shared_prefixes: Set[str] = set()
        self.fp_key: Dict[str, Dict[str, Set[str]]] = {}  # key -> actor -> kinds
        self.fp_list: Dict[str, Set[str]] = {}  # prefix -> actors
        self.stats: Dict[str, Any] = {"executions": 0, "complete": 0, "pruned": 0, "deadlocks": 0, "capped": 0,
                                      "wall_exec": 0.0, "rounds": 0, "determinism_replays": 0, "max_depth": 0,
                                      "transitions": 0}
        self.outcomes: Dict[Any, int] = {}
        self.on_complete: Optional[Callable[[Execution], None]] = None
        self.cap_hit = False

    # ---- shared-object discovery -------------------------------------------------
    def footprint(self, actor: str, op: Op) -> None:
        root = actor.split(".", 1)[0]  # helper threads (heartbeats) belong to their parent's process
        if op.kind == "l":
            self.fp_list.setdefault(op.key, set()).add(actor)
        elif op.kind in ("r", "w"):
            self.fp_key.setdefault(op.key, {}).setdefault(actor, set()).add(op.kind)
        del root

    def is_shared(self, op: Op) -> bool:
        if op.kind == "l":
            return op.key in self.shared_prefixes
        if op.key in self.shared_keys:
            return True
        if op.kind == "w":
            for p in self.shared_prefixes:
                if op.key.startswith(p):
                    return True
        return False

    def _grow_shared(self) -> bool:
        grew = False
        for key, acts in self.fp_key.items():
            if key in self.shared_keys or len(acts) < 2:
                continue
            writers = [a for a, k in acts.items() if "w" in k]
            if writers and (len(acts) > 1):
                self.shared_keys.add(key)
                grew = True
        for prefix, listers in self.fp_list.items():
            if prefix in self.shared_prefixes:
                continue
            for key, acts in self.fp_key.items():
                if not key.startswith(prefix):
                    continue
                if any("w" in k and any(l != a for l in listers) for a, k in acts.items()):
                    self.shared_prefixes.add(prefix)
                    grew = True
                    break
        return grew

    # ---- one execution ---------------------------------------------------------------
    def execute(self, prefix: Sequence[int], fps: Sequence[Any] = ()) -> Execution:
        ENV.reset(self.seed, self.clock_mode)
        self.world.reset()
        e = Execution(self, prefix, fps)
        e.run()
        self.stats["executions"] += 1
        self.stats["transitions"] += e.n_sched
        self.stats["max_depth"] = max(self.stats["max_depth"], len(e.choices))
        if e.deadlock:
            self.stats["deadlocks"] += 1
        if e.capped:
            self.stats["capped"] += 1
            self.cap_hit = True
        return e

    def signature(self, e: Execution) -> Tuple:
        return (tuple(e.choices), tuple(e.trace), round(ENV.clock, 6), self.world.digest(),
                tuple(sorted(a.key() for a in e.actors)))

    # ---- DFS ------------------------------------------------------------------------------
    def explore(self) -> Dict[str, Any]:
        gc_was = gc.isenabled()
        gc.disable()
        try:
            while True:
                self.stats["rounds"] += 1
                self.visited.clear()
                self.outcomes.clear()
                self._dfs()
                if self.cap_hit and self.max_exec is not None and self.stats["executions"] >= self.max_exec:
                    break
                if self.cap_hit and self.max_wall is not None and REAL_TIME() - self._t_begin > self.max_wall:
                    break
                if not self._grow_shared():
                    break
        finally:
            if gc_was:
                gc.enable()
            gc.collect()
        self.stats["states"] = len(self.visited)
        self.stats["shared_keys"] = len(self.shared_keys)
        self.stats["shared_prefixes"] = sorted(self.shared_prefixes)
        return self.stats

    def _dfs(self) -> None:
        stack: List[Tuple[List[int], List[Any]]] = [([], [])]
        n_round = 0
        while stack:
            if self.max_exec is not None and self.stats["executions"] >= self.max_exec:
                self.cap_hit = True
                return
            if self.max_wall is not None and REAL_TIME() - self._t_begin > self.max_wall:
                self.cap_hit = True
                return
            prefix, fps = stack.pop()
            e = self.execute(prefix, fps)
            n_round += 1
            if n_round == 1 or n_round % 200 == 0:
                # determinism self-check: the same choice sequence must reproduce exactly
                sig = self.signature(e)
                e2 = self.execute(e.choices, [p["fp"] for p in e.points])
                self.stats["determinism_replays"] += 1
                self.stats["executions"] -= 1
                if self.signature(e2) != sig:
                    raise HarnessError(f"nondeterministic replay of schedule {e.choices}:\n{e.trace}\nvs\n{e2.trace}")
            if n_round % 50 == 0:
                gc.collect()
            if n_round % 500 == 0:
                progress(f"round {self.stats['rounds']} exec {self.stats['executions']} stack {len(stack)} "
                         f"visited {len(self.visited)} depth {len(e.choices)}")
            fps_all = [p["fp"] for p in e.points]
            for i in range(len(e.points) - 1, len(prefix) - 1, -1):
                p = e.points[i]
                for alt in range(p["n"] - 1, 0, -1):
                    cost = p["costs"][alt]
                    if self.bound is not None and p["preempts"] + cost > self.bound:
                        continue
                    stack.append((e.choices[:i] + [alt], fps_all[:i + 1]))
            if e.complete or e.deadlock:
                if self.on_complete is not None:
                    self.on_complete(e)
