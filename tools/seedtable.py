#!/usr/bin/env python3
"""Summarise /verif/seeded/*/meta.json into seeded/TABLE.md (and print it)."""
import glob, json, os
rows = []
for f in sorted(glob.glob('/verif/seeded/*/meta.json')):
    m = json.load(open(f))
    det = m.get('detected_by', [])
    runs = ", ".join(f"{c}:{'VIOLATION' if v['rc']==1 else ('clean' if v['rc']==0 else 'rc='+str(v['rc']))} ({v['wall_s']}s)" for c, v in m.get('checks_run', {}).items())
    key = ''
    for c, v in m.get('checks_run', {}).items():
        if v.get('violation_keys'):
            key = v['violation_keys'][0][:150]; break
    wave = {'A': 1, 'B': 1, 'C': 2, 'D': 2, 'E': 3, 'F': 3, 'G': 4, 'H': 4, 'I': 5, 'J': 5}.get(m['id'][-1], '?')
    rows.append((m['id'], wave, m.get('summary', '').replace('|', '/'), m.get('valid'), m.get('tier'), runs, ",".join(det) or '-', key))
out = ["| seeded change | wave | what was changed | valid (tests 143/7, demo fails with / passes without) | tier | checks run | reported by | first violation key |", "|---|---|---|---|---|---|---|---|"]
for r in rows:
    out.append(f"| {r[0]} | {r[1]} | {r[2]} | {r[3]} | {r[4]} | {r[5]} | {r[6]} | `{r[7]}` |")
txt = "\n".join(out) + "\n"
open('/verif/seeded/TABLE.md', 'w').write(txt)
print(txt)
