"""C04 - a failed, interrupted or ambiguous commit never damages committed data.

E3a (DESIGN.md 2.4): the storage-level calls of one commit are numbered in a
fault-free run; then, for EVERY call and EVERY applicable fault kind, the
operation is re-run from the same template with the fault planted there:

  local   : OSError before the effect (once / on every attempt),
            KeyboardInterrupt / SystemExit before the effect and after it
  S3      : transient ClientError before the effect (once / persistent),
            permanent ClientError, error AFTER the effect of a PUT/DELETE
            (applied server-side, failed client-side: the ambiguous case),
            KeyboardInterrupt before / after the effect
  backends: local, CAS-S3, non-CAS S3 (polling lock)
  styles  : `with table.new_transaction() as tx`, explicit begin()/commit(),
            the convenience call
  ops     : append, delete_files, expire_snapshots, delete_snapshot
  thorough: all ordered fault pairs inside the commit region as well.

Oracle (transcribed from the statement): success => post-state; raise =>
pre- or post-state; a raise caused by a storage error => pre-state, except a
fault on the pointer write of an object store, which must surface as
AmbiguousCommitError, may leave either state, and must not delete any file
the transaction wrote; always: every file referenced by a retained snapshot
exists; afterwards a fresh handle scans and appends.
"""
from __future__ import annotations

import os
import shutil
from typing import Any, Callable, Dict, List, Optional, Tuple

from botocore.exceptions import ClientError

from dsmc import reader
from dsmc.env import ENV, HINT_NAME
from dsmc.fakes3 import S3World
from dsmc.localfs import install_local_seams
from dsmc.report import HarnessError, Report, pmap
from dsmc.sched import install_threading_seams
from dsmc.tables import fresh_dir, row, schema

OPS = ["append", "delete_files", "expire", "delete_snapshot", "reappend"]
STYLES = ["ctx", "explicit", "convenience"]


def _cerr(code: str, status: int = 500) -> ClientError:
    return ClientError({"Error": {"Code": code, "Message": "injected"}, "ResponseMetadata": {"HTTPStatusCode": status}}, "op")


KINDS_LOCAL = {
    "os_once": ("before", lambda: OSError(5, "injected I/O error"), False),
    "os_persistent": ("before", lambda: OSError(5, "injected I/O error"), True),
    "interrupt_before": ("before", lambda: KeyboardInterrupt(), False),
    "interrupt_after": ("after", lambda: KeyboardInterrupt(), False),
    "sysexit_after": ("after", lambda: SystemExit(3), False),
}
KINDS_S3 = {
    "transient_once": ("before", lambda: _cerr("InternalError"), False),
    "transient_persistent": ("before", lambda: _cerr("InternalError"), True),
    "permanent": ("before", lambda: _cerr("AccessDenied", 403), True),
    "applied_then_error_once": ("after", lambda: _cerr("RequestTimeout", 400), False),
    "applied_then_error_persistent": ("after", lambda: _cerr("RequestTimeout", 400), True),
    "interrupt_before": ("before", lambda: KeyboardInterrupt(), False),
    "interrupt_after": ("after", lambda: KeyboardInterrupt(), False),
    # a transport-level failure: a botocore error that is NOT a ClientError (and not an OSError)
    # a conditional PUT that WAS applied, whose response got lost, and whose automatic retry by the SDK is answered
    # 412 (planted on the pointer write only): the library sees a precondition failure although its write is in place
    "applied_then_precondition_failed": ("after", lambda: _cerr("PreconditionFailed", 412), False),
    "transport_once": ("before", lambda: _transport_error(), False),
    "applied_then_transport_error_once": ("after", lambda: _transport_error(), False),
}


def _transport_error() -> BaseException:
    from botocore.exceptions import EndpointConnectionError

    return EndpointConnectionError(endpoint_url="https://s3.injected.invalid")


class Injector:
    """Numbers storage-level calls (local os events / S3 requests) by global
    index and raises at the planted ones.  `plants` = [(index, when, factory,
    persistent)]; a persistent plant re-fires on every later call with the same
    (fn, path)."""

    def __init__(self, plants: Optional[List[Tuple[int, str, Callable[[], BaseException], bool]]] = None):
        self.plants = plants or []
        self.n = 0
        self.calls: List[Tuple[str, str, Optional[str]]] = []  # (fn, path, kind)
        self.fired: List[int] = []
        self._sticky: Dict[Tuple[str, str], Tuple[str, Callable[[], BaseException]]] = {}
        self._cur: Optional[int] = None

    def _enter(self, fn: str, path: str, kind: Optional[str]) -> None:
        i = self.n
        self.n += 1
        self.calls.append((fn, path, kind))
        self._cur = i
        self._pending_after = None
        sig = (fn, path)
        for (idx, when, fac, pers) in self.plants:
            if idx == i:
                if when == "before" and fn.endswith(".close") and not fn.startswith(("PUT", "DELETE")) \
                        and isinstance(fac(), OSError):
                    when = "after"  # close() releases the descriptor even when it reports an error
                if pers:
                    self._sticky[sig] = (when, fac)
                if when == "before":
                    self.fired.append(i)
                    raise fac()
                self._pending_after = fac
                return
        if sig in self._sticky:
            when, fac = self._sticky[sig]
            if when == "before":
                self.fired.append(i)
                raise fac()
            self._pending_after = fac

    def _exit(self, failed: bool) -> None:
        fac = getattr(self, "_pending_after", None)
        self._pending_after = None
        if fac is not None and not failed:
            self.fired.append(self._cur if self._cur is not None else -1)
            raise fac()

    # local listener
    def before(self, ev: Any) -> None:
        self._enter(f"{ev.mod}.{ev.fn}", _short(ev.path2 or ev.path), ev.kind)

    def after(self, ev: Any, res: Any, exc: Any) -> None:
        self._exit(exc is not None)

    # s3 gate / after
    def gate(self, req: Any) -> None:
        self._enter(req.op + (f"[{req.cond}]" if req.cond else ""), _short(req.key), req.kind)

    def s3_after(self, req: Any, res: Any) -> None:
        self._exit(isinstance(res, BaseException))


def _short(p: Optional[str]) -> str:
    if not p:
        return "?"
    for marker in ("/c04tbl/", "c04tbl/"):
        if marker in p:
            p = p.split(marker, 1)[1]
            break
    b = os.path.basename(p)
    d = os.path.dirname(p)
    if b.startswith(".tmp.") or b.startswith("tmp"):
        b = "<tmp>"
    elif b.endswith(".metadata.json"):
        b = "<metadata>"
    elif b.startswith("manifest_list_"):
        b = "<manifest_list>"
    elif b.startswith("manifest_"):
        b = "<manifest>"
    elif b.endswith(".inflight"):
        b = "<marker>"
    elif b.endswith(".parquet"):
        b = "<data>"
    return f"{d}/{b}" if d else b


class Bench:
    """One (backend) world with a 2-snapshot template table."""

    def __init__(self, backend: str):
        install_threading_seams()
        self.backend = backend
        self.s3w: Optional[S3World] = None
        if backend == "local":
            install_local_seams()
            os.environ["DATASHARD_STORAGE_TYPE"] = "local"
            self.root = os.path.join(fresh_dir(f"c04-{os.getpid()}"), "c04tbl")
            self.location = self.root
            ENV.reset(0)
            ENV.set_actor("main")
            self._build()
            self.template = self.root + ".template"
            shutil.rmtree(self.template, ignore_errors=True)
            shutil.copytree(self.root, self.template, symlinks=True)
            self.view: Any = reader.LocalView(self.root)
        else:
            self.s3w = S3World(cas=(backend == "s3cas"))
            self.s3w.__enter__()
            self.location = "c04tbl"
            ENV.reset(0)
            ENV.set_actor("main")
            self._build()
            self.template_state = self.s3w.s3.clone_state()
            self.view = reader.S3View(self.s3w.s3, "c04tbl")
        self.t_start = ENV.clock + 1.0
        st = reader.TableState(self.view)
        self.pre_ids = st.snapshot_ids()
        self.pre_rows = st.current_rows()
        self.pre_cur = st.current_id
        self.pre_files = st.current_files()
        self.pre_ts = [s["timestamp_ms"] for s in st.md["snapshots"]]
        self.pre_all = self._inventory()

    def _build(self) -> None:
        from datashard import create_table

        t = create_table(self.location, schema())
        t.append_records([row(0)])
        ENV.advance(0.005)
        t.append_records([row(1)])

    def close(self) -> None:
        if self.s3w is not None:
            self.s3w.__exit__(None, None, None)

    def restore(self) -> None:
        if self.backend == "local":
            shutil.rmtree(self.root, ignore_errors=True)
            shutil.copytree(self.template, self.root, symlinks=True)
        else:
            self.s3w.s3.load_state(self.template_state)
        ENV.reset(0)
        ENV.clock = self.t_start
        # file names are derived from (actor, counter): the operation under test must not
        # re-draw the names the template was built with
        ENV.set_actor("op")

    def _inventory(self) -> set:
        return set(self.view.list())

    def attach(self, inj: Injector):
        if self.backend == "local":
            ENV.hooks.append(inj)
        else:
            self.s3w.s3.gates.append(inj.gate)
            self.s3w.s3.after.append(inj.s3_after)

    def detach(self, inj: Injector):
        if self.backend == "local":
            if inj in ENV.hooks:
                ENV.hooks.remove(inj)
        else:
            if inj.gate in self.s3w.s3.gates:
                self.s3w.s3.gates.remove(inj.gate)
            if inj.s3_after in self.s3w.s3.after:
                self.s3w.s3.after.remove(inj.s3_after)

    # ---- the operation under test ------------------------------------------------
    def operation(self, op: str, style: str) -> Callable[[], Any]:
        from datashard import load_table

        loc = self.location
        files = self.pre_files
        bench = self

        def run():
            t = load_table(loc)
            bench.tx = None
            if op == "delete_snapshot":
                return t.snapshot_manager.delete_snapshot(bench.pre_ids[0])
            if style == "convenience" and op == "append":
                return t.append_records([row(7)])

            def fill(tx):
                bench.tx = tx
                if op == "append":
                    tx.append_data([row(7)])
                elif op == "reappend":
                    # a pre-built file that retained snapshots already reference is registered (again) through the
                    # file-level append API: the transaction did not write it and must never delete it
                    mine = [d for d in t._get_all_data_files() if d.file_path.lstrip("/") == files[0]]
                    tx.append_files(mine[:1])
                elif op == "delete_files":
                    tx.delete_files(["/" + files[0]])
                elif op == "expire":
                    tx.expire_snapshots(bench.pre_ts[1])

            if style in ("ctx", "convenience"):
                with t.new_transaction() as tx:
                    fill(tx)
                    return tx.commit()
            tx = t.new_transaction().begin()
            fill(tx)
            return tx.commit()

        return run

    # ---- state classification ---------------------------------------------------------
    def classify(self, op: str) -> Tuple[str, List[str]]:
        """-> ('pre' | 'post' | 'other', problems about missing referenced files)."""
        try:
            st = reader.TableState(self.view)
        except reader.ReadError as e:
            return "other", [f"metadata unreadable: {e}"]
        if st.md is None:
            return "other", ["pointer unusable after the operation"]
        probs = list(st.errors)
        ids = st.snapshot_ids()
        try:
            rows = st.current_rows()
        except reader.ReadError as e:
            return "other", probs + [str(e)]
        if ids == self.pre_ids and rows == self.pre_rows and st.current_id == self.pre_cur:
            return "pre", probs
        r7 = reader.canon_row(row(7))
        r0 = reader.canon_row(row(0))
        if op == "append":
            ok = (ids[:-1] == self.pre_ids and len(ids) == len(self.pre_ids) + 1 and st.current_id == ids[-1]
                  and sorted(rows, key=repr) == sorted(self.pre_rows + [r7], key=repr))
        elif op == "reappend":
            ok = (ids[:-1] == self.pre_ids and len(ids) == len(self.pre_ids) + 1 and st.current_id == ids[-1]
                  and rows == self.pre_rows)
        elif op == "delete_files":
            ok = (ids[:-1] == self.pre_ids and len(ids) == len(self.pre_ids) + 1 and st.current_id == ids[-1]
                  and rows == [r for r in self.pre_rows if r != r0])
        elif op == "expire":
            ok = ids == self.pre_ids[1:] and rows == self.pre_rows and st.current_id == self.pre_cur
        else:
            ok = ids == self.pre_ids[1:] and rows == self.pre_rows and st.current_id == self.pre_cur
        return ("post" if ok else "other"), probs

    def followup(self) -> List[str]:
        """A fresh handle must scan and append (a leaked S3 lock may cost one lease)."""
        from datashard import load_table

        probs: List[str] = []
        ENV.set_actor("followup")
        try:
            t = load_table(self.location)
            before = reader.canon_rows(t.scan())
            ind = reader.TableState(self.view).current_rows()
            if before != ind:
                probs.append("library scan and independent reader disagree after the operation")
            ok = None
            for attempt in range(3):
                try:
                    ok = t.append_records([row(99)])
                    break
                except TimeoutError:
                    ENV.advance(61.0)  # a leaked lock self-heals by lease expiry
            if ok is not True:
                probs.append(f"follow-up append did not succeed: {ok!r}")
            else:
                after = reader.canon_rows(load_table(self.location).scan())
                if sorted(after, key=repr) != sorted(before + [reader.canon_row(row(99))], key=repr):
                    probs.append("follow-up append not visible / rows changed")
        except BaseException as e:  # noqa
            probs.append(f"follow-up on a fresh handle raised {type(e).__name__}: {str(e)[:120]}")
        return probs


def _is_pointer_write(call: Tuple[str, str, Optional[str]]) -> bool:
    fn, path, _k = call
    return path.endswith(HINT_NAME) and (fn.startswith("PUT") or fn.endswith(".replace"))


def _region(calls: List[Tuple[str, str, Optional[str]]]) -> Tuple[int, int]:
    """Commit region = from the first lock access to the end."""
    for i, (fn, path, _k) in enumerate(calls):
        if ".locks" in path:
            return i, len(calls)
    return 0, len(calls)


def run_group(payload: Dict[str, Any]) -> Dict[str, Any]:
    backend, op, style, tier, seed = payload["backend"], payload["op"], payload["style"], payload["tier"], payload["seed"]
    rep = Report("C04", tier, seed, "fault_enumeration")
    b = Bench(backend)
    try:
        kinds = KINDS_LOCAL if backend == "local" else KINDS_S3
        if tier == "quick":
            kinds = {k: v for k, v in kinds.items() if k != "sysexit_after"}
        # recording run
        b.restore()
        rec = Injector()
        b.attach(rec)
        try:
            res0 = b.operation(op, style)()
        finally:
            b.detach(rec)
        if res0 is not True or b.classify(op)[0] != "post":
            raise HarnessError(f"fault-free run of {payload} did not commit: {res0!r} {b.classify(op)}")
        calls = list(rec.calls)
        rep.add("storage_calls_numbered", len(calls))
        plans: List[Tuple[str, List[Tuple[int, str, Any, bool]], str]] = []
        for i, call in enumerate(calls):
            for kname, (when, fac, pers) in kinds.items():
                if kname == "applied_then_precondition_failed" and not (call[0].startswith("PUT[") and _is_pointer_write(call)):
                    continue
                if when == "after" and backend != "local" and not call[0].startswith(("PUT", "DELETE")) \
                        and not kname.startswith("interrupt"):
                    continue  # "applied then error" only makes sense for mutating requests
                plans.append((kname, [(i, when, fac, pers)], f"{kname}@{i}"))
        if tier != "quick" and payload.get("pairs"):
            lo, hi = _region(calls)
            base = "os_once" if backend == "local" else "transient_once"
            w1, f1, _ = kinds[base]
            second = ["os_once", "interrupt_after"] if backend == "local" else ["transient_persistent", "applied_then_error_once"]
            for i in range(lo, hi):
                for j in range(i + 1, hi):
                    for k2 in second:
                        w2, f2, p2 = kinds[k2]
                        if w2 == "after" and backend != "local" and not calls[j][0].startswith(("PUT", "DELETE")):
                            continue
                        plans.append((f"{base}+{k2}", [(i, w1, f1, False), (j, w2, f2, p2)], f"{base}@{i}+{k2}@{j}"))
        for kname, plants, label in plans:
            b.restore()
            inj = Injector(plants)
            b.attach(inj)
            outcome: Tuple[str, Any]
            try:
                r = b.operation(op, style)()
                outcome = ("ok", r)
            except BaseException as e:  # noqa - the outcome is data
                outcome = ("raise", type(e).__name__)
            finally:
                b.detach(inj)
            rep.add("evaluations")
            if not inj.fired:
                rep.add("plans_not_reached")  # an earlier fault of a pair changed the call sequence
                continue
            first = plants[0][0]
            fcall = calls[first] if first < len(calls) else ("?", "?", None)
            state, missing = b.classify(op)
            inv = b._inventory()
            problems: List[str] = []
            if missing:
                problems.append("a file referenced by a retained snapshot is missing: " + "; ".join(missing[:2]))
            if state == "other":
                problems.append("table is in neither the pre- nor the post-state")
            storage_fault = all(not k.startswith(("interrupt", "sysexit")) for k in kname.split("+"))
            # which of the planted faults actually hit a pointer write IN THIS RUN (after a first fault the call
            # sequence differs from the recording run, so the injector's own log is authoritative)
            fired_ptr = [i for i in inj.fired if 0 <= i < len(inj.calls) and _is_pointer_write(inj.calls[i])]
            persistent_any = any(p[3] for p in plants)
            # CAS pointer writes are never retried: any error there leaves the outcome unknowable to the client;
            # the non-CAS pointer write is retried, so only a fault outliving the retries is unknowable
            unknowable = bool(fired_ptr) and (backend == "s3cas" or (backend == "s3nocas" and persistent_any))
            if outcome[0] == "ok":
                if outcome[1] is True and state == "pre":
                    problems.append("commit reported success but the table is in the pre-state")
                if outcome[1] is not True and state == "post" and op != "delete_snapshot":
                    problems.append(f"commit returned {outcome[1]!r} but the table is in the post-state")
            else:
                if storage_fault and not unknowable and state == "post":
                    problems.append(f"raised {outcome[1]} after a storage fault although the commit took effect")
                if storage_fault and unknowable:
                    if outcome[1] != "AmbiguousCommitError":
                        problems.append(f"unknowable pointer-write outcome reported as {outcome[1]}, not AmbiguousCommitError")
                    if op == "append" and not any(p.startswith("data/") for p in inv - b.pre_all):
                        problems.append("ambiguous commit: the data file written by the transaction was deleted")
            leftovers = sorted(p for p in inv - b.pre_all if p.startswith("data/") or "/inflight/" in p)
            if outcome[0] == "raise" and state == "pre" and leftovers:
                rep.add("clean_failures_with_leftover_tx_files_informational")
            if not problems and backend != "local" and storage_fault and not persistent_any:
                # the process is alive and the single fault is over: the metadata lock must have been given back,
                # unless the fault hit the release itself (no later lock / pointer write follows it in this run)
                lock_key = f"{b.location}/.locks/metadata.lock"
                if lock_key in b.s3w.s3.objs:
                    def hit_the_release(fi: int) -> bool:
                        if not (0 <= fi < len(inj.calls)) or ".locks/" not in inj.calls[fi][1]:
                            return False
                        return not [c for c in inj.calls[fi + 1:] if c[0].startswith("PUT") and
                                    (".locks/" in c[1] or c[1].endswith(HINT_NAME))]

                    if not any(hit_the_release(fi) for fi in inj.fired):
                        fi = max(inj.fired)
                        problems.append("the metadata lock is still held after the operation returned: "
                                        f"fault at {inj.calls[fi] if 0 <= fi < len(inj.calls) else '?'}")
            if not problems:
                problems += b.followup()
            okey = (backend, op, style, kname, outcome[0], str(outcome[1]), state)
            rep.nontrivial(okey + (_short(fcall[1]), fcall[0]))
            rep.cov.setdefault("outcome_classes", {})
            oc = f"{kname}:{outcome[0]}:{outcome[1]}:{state}"
            rep.cov["outcome_classes"][oc] = rep.cov["outcome_classes"].get(oc, 0) + 1
            if problems:
                after_flip = any(_is_pointer_write(c) for c in calls[:first + (1 if plants[0][1] == "after" else 0)])
                rep.violation(
                    {"backend": backend, "op": op, "style": style, "fault": kname,
                     "phase": "at_or_after_pointer_write" if after_flip else "before_pointer_write",
                     "problem": problems[0].split(":")[0][:80]},
                    {"plan": label, "at_call": [list(inj.calls[i]) for i in inj.fired if 0 <= i < len(inj.calls)],
                     "outcome": list(map(str, outcome)), "state": state, "problems": problems,
                     "payload": payload, "plants": [[p[0], p[1], kname, p[3]] for p in plants]})
        rep.sample({"group": f"{backend}/{op}/{style}", "calls": [f"{i}: {c[0]} {c[1]}" for i, c in enumerate(calls)][:70]})
    finally:
        b.close()
    rep.add("groups")
    return rep.part()


def run_create(payload: Dict[str, Any]) -> Dict[str, Any]:
    """create_table on an empty location, a fault / an interrupt at EVERY storage call: whatever the failed creation
    leaves behind, a fresh process must be able to create-or-open the table, append to it and read it back (a lock
    left by the dead creator may cost one lease)."""
    from datashard import create_table, load_table

    backend, tier, seed = payload["backend"], payload["tier"], payload["seed"]
    rep = Report("C04", tier, seed, "fault_enumeration")
    install_threading_seams()
    s3w: Optional[S3World] = None
    if backend == "local":
        install_local_seams()
        os.environ["DATASHARD_STORAGE_TYPE"] = "local"
        base = fresh_dir(f"c04-create-{os.getpid()}")
        loc = os.path.join(base, "c04tbl")
        view: Any = reader.LocalView(loc)
    else:
        s3w = S3World(cas=(backend == "s3cas"))
        s3w.__enter__()
        loc = "c04tbl"
        view = reader.S3View(s3w.s3, loc)

    def restore() -> None:
        if backend == "local":
            shutil.rmtree(loc, ignore_errors=True)
        else:
            s3w.s3.load_state({})
        ENV.reset(0)
        ENV.set_actor("op")

    def attach(inj: Injector) -> None:
        if backend == "local":
            ENV.hooks.append(inj)
        else:
            s3w.s3.gates.append(inj.gate)
            s3w.s3.after.append(inj.s3_after)

    def detach(inj: Injector) -> None:
        if backend == "local":
            if inj in ENV.hooks:
                ENV.hooks.remove(inj)
        else:
            if inj.gate in s3w.s3.gates:
                s3w.s3.gates.remove(inj.gate)
            if inj.s3_after in s3w.s3.after:
                s3w.s3.after.remove(inj.s3_after)

    try:
        kinds = KINDS_LOCAL if backend == "local" else KINDS_S3
        if tier == "quick":
            kinds = {k: v for k, v in kinds.items() if k != "sysexit_after"}
        if backend != "local":
            # a conditional PUT that WAS applied, whose response got lost, and whose automatic retry by the SDK is
            # answered 412: the library sees a precondition failure although its own write is in place
            kinds = dict(kinds, applied_then_precondition_failed=("after", lambda: _cerr("PreconditionFailed", 412), False))
        restore()
        rec = Injector()
        attach(rec)
        try:
            create_table(loc, schema())
        finally:
            detach(rec)
        calls = list(rec.calls)
        rep.add("storage_calls_numbered", len(calls))
        for i, call in enumerate(calls):
            for kname, (when, fac, pers) in kinds.items():
                if kname == "applied_then_precondition_failed" and not call[0].startswith("PUT["):
                    continue
                if when == "after" and backend != "local" and not call[0].startswith(("PUT", "DELETE")) \
                        and not kname.startswith("interrupt"):
                    continue
                restore()
                inj = Injector([(i, when, fac, pers)])
                attach(inj)
                try:
                    create_table(loc, schema())
                    outcome = ("ok", None)
                except BaseException as e:  # noqa - the outcome is data
                    outcome = ("raise", type(e).__name__)
                finally:
                    detach(inj)
                rep.add("evaluations")
                rep.add("create_fault_runs")
                if not inj.fired:
                    rep.add("plans_not_reached")
                    continue
                problems: List[str] = []
                ENV.set_actor("followup")
                t = None
                for attempt in range(3):
                    try:
                        t = create_table(loc, schema())
                        break
                    except TimeoutError:
                        ENV.advance(61.0 if backend != "local" else 301.0)  # the dead creator's lock lapses
                    except BaseException as e:  # noqa
                        problems.append(f"create-or-open after the failed creation raised {type(e).__name__}: {str(e)[:140]}")
                        break
                if t is None and not problems:
                    problems.append("create-or-open after the failed creation keeps timing out on the lock")
                if t is not None:
                    try:
                        ok = None
                        for attempt in range(3):
                            try:
                                ok = t.append_records([row(99)])
                                break
                            except TimeoutError:
                                ENV.advance(61.0 if backend != "local" else 301.0)
                        got = reader.canon_rows(load_table(loc).scan())
                        ind = reader.TableState(view).current_rows()
                        if ok is not True or got != [reader.canon_row(row(99))] or ind != got:
                            problems.append(f"table created after the failed creation: append -> {ok!r}, scan {got}, independent {ind}")
                    except BaseException as e:  # noqa
                        problems.append(f"table created after the failed creation is unusable: {type(e).__name__}: {str(e)[:140]}")
                rep.nontrivial((backend, "create", kname, outcome[0], str(outcome[1]), _short(call[1]), call[0]))
                if problems:
                    after_flip = any(_is_pointer_write(c) for c in calls[:i + (1 if when == "after" else 0)])
                    rep.violation(
                        {"backend": backend, "op": "create", "style": "create_table", "fault": kname,
                         "phase": "at_or_after_pointer_write" if after_flip else "before_pointer_write",
                         "problem": problems[0].split(":")[0][:80]},
                        {"plan": f"{kname}@{i}", "at_call": [list(call)], "outcome": list(map(str, outcome)),
                         "problems": problems, "payload": payload, "create": True, "plants": [[i, when, kname, pers]]})
        rep.sample({"group": f"{backend}/create", "calls": [f"{i}: {c[0]} {c[1]}" for i, c in enumerate(calls)][:40]})
    finally:
        if s3w is not None:
            s3w.__exit__(None, None, None)
    rep.add("groups")
    return rep.part()


def run_reuse(payload: Dict[str, Any]) -> Dict[str, Any]:
    """One Transaction handle reused: round 1 is interrupted right AFTER the pointer flip (durable, reported as an
    interrupt), round 2 on the same handle then fails cleanly at every possible storage call.  The rollback of round 2
    must not touch anything round 1 committed."""
    from datashard import load_table

    tier, seed = payload["tier"], payload["seed"]
    rep = Report("C04", tier, seed, "fault_enumeration")
    b = Bench("local")
    try:
        def scenario(inj: Injector) -> Tuple[str, str]:
            b.restore()
            b.attach(inj)
            r1 = r2 = "?"
            try:
                t = load_table(b.location)
                tx = t.new_transaction()
                try:
                    tx.begin()
                    tx.append_data([row(7)])
                    r1 = f"ok:{tx.commit()}"
                except BaseException as e:  # noqa
                    r1 = f"raise:{type(e).__name__}"
                try:
                    tx.begin()
                    tx.append_data([row(8)])
                    r2 = f"ok:{tx.commit()}"
                except BaseException as e:  # noqa
                    r2 = f"raise:{type(e).__name__}"
            finally:
                b.detach(inj)
            return r1, r2

        rec = Injector()
        scenario(rec)
        ptr = [i for i, c in enumerate(rec.calls) if _is_pointer_write(c)]
        if len(ptr) != 2:
            raise HarnessError(f"reuse scenario: expected 2 pointer writes, saw {len(ptr)}")
        first = (ptr[0], "after", lambda: KeyboardInterrupt(), False)
        rec2 = Injector([first])
        scenario(rec2)
        n2 = len(rec2.calls)
        rep.add("storage_calls_numbered", n2)
        for j in range(ptr[0] + 1, n2):
            for kname, (when, fac, pers) in (("os_once", KINDS_LOCAL["os_once"]), ("interrupt_before", KINDS_LOCAL["interrupt_before"])):
                inj = Injector([first, (j, when, fac, pers)])
                r1, r2 = scenario(inj)
                rep.add("evaluations")
                rep.add("handle_reuse_cases")
                st = reader.TableState(b.view)
                rows = None if st.errors else st.current_rows()
                r7, r8 = reader.canon_row(row(7)), reader.canon_row(row(8))
                problems: List[str] = []
                if st.errors:
                    problems.append("a file referenced by a retained snapshot is missing: " + "; ".join(st.errors[:2]))
                elif r7 not in rows:
                    problems.append("round 1 was durable (pointer flipped) but its row is gone")
                elif r2.startswith("ok:True") and r8 not in rows:
                    problems.append(f"round 2 reported success but its row is missing")
                elif r2.startswith("raise") and kname == "os_once" and r8 in rows:
                    problems.append(f"round 2 raised after a storage fault although its commit took effect")
                if not problems:
                    problems += b.followup()
                rep.nontrivial(("reuse", kname, r1, r2, _short(rec2.calls[j][1]) if j < len(rec2.calls) else "?"))
                if problems:
                    rep.violation({"backend": "local", "op": "handle_reuse_after_interrupted_commit", "style": "explicit",
                                   "fault": f"interrupt_after+{kname}", "phase": "second_commit",
                                   "problem": problems[0].split(":")[0][:80]},
                                  {"plan": f"interrupt_after@{ptr[0]}+{kname}@{j}", "round1": r1, "round2": r2, "problems": problems,
                                   "at_call": [list(rec2.calls[j])] if j < len(rec2.calls) else None, "payload": payload,
                                   "outcome": [r1, r2], "state": "n/a"})
        rep.sample({"group": "local/handle_reuse", "round1": "KeyboardInterrupt right after the pointer rename", "calls": n2})
    finally:
        b.close()
    rep.add("groups")
    return rep.part()


def groups(tier: str, seed: int) -> List[Dict[str, Any]]:
    out = []
    for backend in ("local", "s3cas", "s3nocas"):
        for op in OPS:
            for style in STYLES:
                if op == "delete_snapshot" and style != "explicit":
                    continue
                if style == "convenience" and op != "append":
                    continue
                if op == "reappend" and style != "ctx":
                    continue
                if tier == "quick" and backend == "s3nocas" and style == "explicit":
                    continue
                out.append({"backend": backend, "op": op, "style": style, "tier": tier, "seed": seed,
                            "pairs": (style == "ctx" or op == "delete_snapshot")})
    return out


def run(tier: str, seed: int) -> Report:
    rep = Report("C04", tier, seed, "fault_enumeration")
    gs = groups(tier, seed)
    if seed:
        gs = gs[seed % len(gs):] + gs[:seed % len(gs)]
    for part in pmap("checks.c04", "run_group", gs):
        rep.merge(part)
    for part in pmap("checks.c04", "run_reuse", [{"tier": tier, "seed": seed, "reuse": True}]):
        rep.merge(part)
    for part in pmap("checks.c04", "run_create", [{"backend": b, "tier": tier, "seed": seed} for b in ("local", "s3cas", "s3nocas")]):
        rep.merge(part)
    rep.cov["exhaustive"] = not rep.caps
    rep.cov["rule"] = ("every storage-level call (local: os-level events; S3: requests) of each (backend, op, style) commit x "
                       "every applicable fault kind (thorough: + all ordered fault pairs in the commit region); non-trivial = "
                       "distinct (backend, op, style, fault kind, outcome, resulting state, faulted call class)")
    rep.assumptions += [
        "in-memory S3 (strongly consistent, conditional writes); 'applied then error' = the effect of a PUT/DELETE is applied "
        "and the client then sees an error",
        "asynchronous interrupts are raised at storage-call boundaries (before / after each call), not between arbitrary bytecodes",
        "leftover files of a cleanly failed transaction are counted, not judged (the statement only requires that they never become reachable)",
        "a leaked S3 lock after a fault at lock release may cost one lease period before the follow-up append succeeds",
    ]
    return rep


def replay(case: Dict[str, Any]) -> Dict[str, Any]:
    d = case["detail"]
    p = dict(d["payload"])
    part = run_create(p) if d.get("create") else (run_reuse(p) if p.get("reuse") else run_group(p))
    hit = [v for v in part["violations"].values() if v["detail"]["plan"] == d["plan"]]
    return {"violated": bool(hit), "matching": hit[:1]}
