"""C08 - a stale lock holder or delayed pointer write cannot lose an update on S3.

E1 on CAS-S3 at request granularity.  Deviations beyond preemptions:
  * clock jump (+61 s = lease + 1 s) while actors are enabled: an in-flight
    request is delayed across a lease period while the process stays alive
    (its heartbeat runs when scheduled);
  * process pause: a committer and its heartbeat thread are frozen and the
    clock jumps +61 s (the lease lapses); the process is resumed at any later
    point.
Lock variants: the real CAS lock, and a lock that grants everyone ("even if
the lock gives no exclusion at all").

Oracles: (i) every successful conditional PUT of the pointer replaced a pointer
naming the metadata file that the same committer read for validation inside
that commit; (ii) C01's serializability oracle over acknowledged commits;
(iii) no committer ends with anything but success / retry exhaustion / lock
timeout.
"""
from __future__ import annotations

import threading
from typing import Any, Dict, List, Tuple

from checks.c01 import C01World
from dsmc.commitworld import outcome_of
from dsmc.env import ENV, HINT_NAME
from dsmc.report import Report, pmap
from dsmc.sched import DONE, PARKED, Execution, Explorer
from dsmc.worlds import root_actor

LEASE_JUMP = 61.0


class GrantAll:
    """The statement's 'lock that gives no exclusion at all'."""

    def acquire(self) -> bool:
        return True

    def release(self) -> None:
        pass

    def is_held(self) -> bool:
        return True


class C08World(C01World):
    def __init__(self, ops: Tuple[str, ...], lock: str, rep: Report, cfg: Dict[str, Any]):
        import datashard.metadata_manager as mm
        import datashard.storage_backend as sb

        self.lock_variant = lock
        self._orig_create_lock = sb.S3StorageBackend.create_lock
        if lock == "grantall":
            sb.S3StorageBackend.create_lock = lambda self_, path, timeout=30.0: GrantAll()
        super().__init__("s3", "separate", ops, rep, cfg)
        self.max_pauses = cfg.get("max_pauses", 0)
        # harness-side observation of "the version validated against": the
        # metadata file read by refresh() inside MetadataManager.commit
        self._tl = threading.local()
        self.last_req: Dict[str, str] = {}
        self.lock_ids: Dict[str, Any] = {}
        self.lock_writer: Any = None
        self.fence_saw: Dict[str, Any] = {}
        self.overwrites: List[str] = []
        self.ptr_fault_fired = False
        self.validated: Dict[str, str] = {}
        self.cas_log: List[Dict[str, Any]] = []
        w = self
        self._orig_commit = mm.MetadataManager.commit
        self._orig_read = mm.MetadataManager._read_metadata_file

        def commit(self_, base, new):
            w._tl.depth = getattr(w._tl, "depth", 0) + 1
            try:
                return w._orig_commit(self_, base, new)
            finally:
                w._tl.depth -= 1

        def _read(self_, path):
            if getattr(w._tl, "depth", 0) > 0:
                w.validated[root_actor(ENV.actor())] = path.rsplit("/", 1)[-1]
            return w._orig_read(self_, path)

        mm.MetadataManager.commit = commit
        mm.MetadataManager._read_metadata_file = _read
        fake = self.s3w.s3
        self._prev: Dict[int, Any] = {}

        def gate(req):
            if (self.cfg.get("ptr_fault") and req.op == "PUT" and req.key.endswith(HINT_NAME)
                    and root_actor(req.actor) == "A" and not self.ptr_fault_fired):
                # deviation of the configuration: A's first pointer write is answered 503 and is NOT applied
                from botocore.exceptions import ClientError

                self.ptr_fault_fired = True
                self.last_req[req.actor] = req.label() + " FAILED"
                raise ClientError({"Error": {"Code": "ServiceUnavailable", "Message": "injected"},
                                   "ResponseMetadata": {"HTTPStatusCode": 503}}, "PutObject")
            if req.op == "PUT" and req.key.endswith(HINT_NAME):
                o = fake.objs.get(req.key)
                self._prev[req.idx] = None if o is None else o.body.decode()
            if req.op == "PUT" and req.key.endswith(".metadata.json") and req.key in fake.objs:
                # a published (or at least uploaded) metadata version is immutable: nobody may write it again
                self.overwrites.append(f"{root_actor(req.actor)} re-wrote an existing metadata object: {req.key.rsplit('/', 1)[-1]}")

        def after(req, res):
            if req.op == "PUT" and req.key.endswith(HINT_NAME) and not isinstance(res, BaseException):
                a = root_actor(req.actor)
                # who owns the lock object at the commit point, and did this committer read its ownership
                # (the fence) as its last request before the pointer write?
                # ownership = the committer whose PUT last wrote the lock object (observed by the harness: the
                # identifiers inside the object are the library's business and may not be unique)
                lock_obj = fake.objs.get(f"{self.location}/.locks/metadata.lock")
                owner = None if lock_obj is None else self.lock_writer
                self.cas_log.append({"actor": a, "replaced": self._prev.get(req.idx), "validated": self.validated.get(a),
                                     "conditional": req.cond, "new": fake.objs[req.key].body.decode(),
                                     "lock_owner_at_commit_point": owner,
                                     "my_lock_id": a if self.lock_variant == "cas" else None,
                                     "previous_request": self.last_req.get(req.actor),
                                     "fence_saw_writer": self.fence_saw.get(a)})
            if req.key.endswith("/.locks/metadata.lock") and not isinstance(res, BaseException):
                if req.op == "GET" and "." not in req.actor:
                    self.fence_saw[req.actor] = self.lock_writer
                if req.op == "PUT":
                    self.lock_writer = root_actor(req.actor)
                elif req.op == "DELETE":
                    self.lock_writer = None
            if "." not in req.actor:
                self.last_req[req.actor] = req.label() + (" FAILED" if isinstance(res, BaseException) else "")

        fake.gates.append(gate)  # runs after the scheduler's gate, i.e. immediately before the effect
        fake.after.append(after)
        # deviation "partition": from some point on every request of one committer (and its heartbeat) to the LOCK
        # object fails with a transient 503 - renewals and the fence read included
        self.partitioned: set = set()
        self.max_partitions = cfg.get("max_partitions", 0)
        lock_key = f"{self.location}/.locks/metadata.lock"

        def partition_gate(req):
            if req.key == lock_key and root_actor(req.actor) in self.partitioned:
                from botocore.exceptions import ClientError

                self.last_req[req.actor] = req.label() + " FAILED"
                raise ClientError({"Error": {"Code": "SlowDown", "Message": "partition"},
                                   "ResponseMetadata": {"HTTPStatusCode": 503}}, req.op)

        fake.gates.append(partition_gate)
        if cfg.get("init") == "pointer_lost":
            # the table's pointer object is missing (versions are recovered by scanning) when the committers start
            self._template_state.pop(f"{self.location}/{HINT_NAME}", None)

    def close(self) -> None:
        import datashard.metadata_manager as mm
        import datashard.storage_backend as sb

        mm.MetadataManager.commit = self._orig_commit
        mm.MetadataManager._read_metadata_file = self._orig_read
        sb.S3StorageBackend.create_lock = self._orig_create_lock
        super().close()

    def reset(self) -> None:
        super().reset()
        self.validated = {}
        self.cas_log = []
        self._prev = {}
        self.last_req = {}
        self.lock_ids = {}
        self.lock_writer = None
        self.fence_saw = {}
        self.overwrites = []
        self.ptr_fault_fired = False
        self.partitioned = set()
        if self.lock_variant == "cas":
            for i in range(len(self.ops)):
                lp = self.handle(i).metadata_manager.lock_provider
                self.lock_ids[chr(ord("A") + i)] = getattr(lp, "lock_id", None)

    # ---- pause / resume deviations -----------------------------------------
    def extra_options(self, ex: Execution) -> List[Tuple]:
        opts: List[Tuple] = []
        for a in ex.actors:
            if "." in a.name:
                continue
            if (a.name in self.partitioned and a is ex.last and a.state == PARKED and a.wake is not None and not a.frozen
                    and ENV.clock < a.wake):
                # the committer that was running sleeps (retry back-off) and nobody else gets scheduled meanwhile:
                # time simply passes.  Without this option "the sleeper continues" would cost a preemption.
                opts.append(("sleep-elapses", a.name))
            if a.frozen:
                opts.append(("resume", a.name))
            elif a.state != DONE and ex.jumps < self.max_pauses and a.steps > 0 and \
                    (not self.cfg.get("pause_only") or a.name in self.cfg["pause_only"]) and self._holds_lock(a.name):
                # with max_partitions the pause comes with a partition: from now on the committer (and its heartbeat)
                # cannot reach the lock object any more - renewals and fence reads fail with 503
                opts.append(("pause+61s+cut-off-from-lock" if self.max_partitions else "pause+61s", a.name))
        return opts

    def _holds_lock(self, name: str) -> bool:
        """Pauses are offered only to a committer that currently owns the lock object: pausing a process that holds
        nothing only delays it (covered by ordinary scheduling), and time passing under somebody else's live lease is
        the clock-jump deviation."""
        o = self.s3w.s3.objs.get(f"{self.location}/.locks/metadata.lock")
        return o is not None and self.lock_writer == name

    def apply_extra(self, ex: Execution, opt: Tuple) -> None:
        kind, name = opt
        if kind == "partition-from-lock":
            self.partitioned.add(name)
            return
        if kind == "sleep-elapses":
            for a in ex.actors:
                if a.name == name and a.wake is not None:
                    ENV.clock = max(ENV.clock, round(a.wake, 6))
            return
        if kind == "pause+61s+cut-off-from-lock":
            self.partitioned.add(name)
        for a in ex.actors:
            if root_actor(a.name) == name:
                a.frozen = (kind != "resume")
        if kind != "resume":
            ENV.clock = round(ENV.clock + LEASE_JUMP, 6)
            ex.jumps += 1

    # ---- oracle -----------------------------------------------------------------
    def check(self, ex: Execution) -> None:
        before = len(self.rep.violations)
        super().check(ex)
        problems: List[str] = list(self.overwrites[:2])
        for c in self.cas_log:
            if c["conditional"] is None:
                problems.append(f"{c['actor']} advanced the pointer with an unconditional PUT")
            elif c["replaced"] is not None and c["validated"] is not None and c["replaced"].strip() != c["validated"]:
                problems.append(f"{c['actor']} replaced pointer '{c['replaced']}' but validated against '{c['validated']}'")
            if self.lock_variant == "cas" and c.get("my_lock_id") and c["lock_owner_at_commit_point"] != c["my_lock_id"]:
                # the lock was lost before the commit point: acknowledging is tolerable only if the committer's last
                # request before the pointer write was its ownership read (the loss then happened after the fence)
                prev = c.get("previous_request") or ""
                if not (prev.startswith("GET") and prev.endswith("metadata.lock")):  # a FAILED read proves nothing
                    problems.append(f"{c['actor']} advanced the pointer after losing its lock without re-checking ownership "
                                    f"before the commit point")
                elif c.get("fence_saw_writer") != c["actor"]:
                    # the ownership read itself already returned a lock object written by another committer
                    problems.append(f"{c['actor']} advanced the pointer although its ownership read returned a lock object "
                                    f"written by {c.get('fence_saw_writer')}")
        for a in ex.actors:
            if "." in a.name:
                continue
            kind, val = outcome_of(a)
            if kind == "raise" and val not in ("ConcurrentModificationException", "TimeoutError"):
                if self.cfg.get("ptr_fault") and a.name == "A" and val == "AmbiguousCommitError":
                    self.rep.add("commits_reported_ambiguous_after_the_injected_pointer_fault")
                elif a.name in self.partitioned and val == "ClientError":
                    self.rep.add("commits_failed_by_the_injected_partition")  # the storage error itself surfaced: legitimate
                else:
                    problems.append(f"{a.name} ended with {val} (neither success nor a retryable conflict)")
        if ex.jumps:
            self.rep.add("executions_with_lease_lapse")
        if any(c for c in ex.trace if "PUT[IfMatch]" in c and "metadata.lock" in c):
            self.rep.add("executions_with_lock_takeover_or_renewal")
        if problems:
            self.rep.violation(
                {"lock": self.lock_variant, "ops": list(self.ops), "problem": problems[0].split("'")[0].split(":")[0][:60].strip(),
                 "deviations": "pause" if any("pause" in t for t in ex.trace) else ("jump" if ex.jumps else "none")},
                {"config": self.cfg, "choices": ex.choices, "schedule": ex.trace, "problems": problems,
                 "shared_keys": sorted(ex.ex.shared_keys), "shared_prefixes": sorted(ex.ex.shared_prefixes),
                 "cas_log": self.cas_log})
        # re-key C01-oracle violations found in this run with the lock variant
        if len(self.rep.violations) > before:
            for k in list(self.rep.violations)[before:]:
                v = self.rep.violations[k]
                if "lock" not in v["key"]:
                    v["key"]["lock"] = self.lock_variant
                if self.cfg.get("init") and "initial_state" not in v["key"]:
                    v["key"]["initial_state"] = self.cfg["init"]


def run_config(cfg: Dict[str, Any]) -> Dict[str, Any]:
    rep = Report("C08", cfg["tier"], cfg["seed"], "model_checking")
    w = C08World(tuple(cfg["ops"]), cfg["lock"], rep, cfg)
    try:
        exp = Explorer(w, bound=cfg.get("bound"), seed=cfg["seed"], clock_mode="TICK", horizon=4000,
                       max_jumps=cfg.get("max_jumps", 0), jump_amounts=[LEASE_JUMP] if cfg.get("max_jumps") else [],
                       has_extra=bool(cfg.get("max_pauses") or cfg.get("max_partitions")), max_exec=cfg.get("max_exec"))
        exp.on_complete = w.check
        stats = exp.explore()
        exp.visited.clear()
        sample = exp.execute([]) if cfg.get("sample") else None
    finally:
        w.close()
    rep.add("states", stats["states"])
    rep.add("transitions", stats["transitions"])
    rep.add("executions", stats["executions"])
    rep.add("traces_validated_against_impl", stats["complete"])
    rep.add("determinism_replays", stats["determinism_replays"])
    rep.add("configs")
    rep.setmax("max_depth", stats["max_depth"])
    rep.cov.setdefault("per_config", {})[cfg["id"]] = stats["executions"]
    rep.cov.setdefault("distinct_outcomes", {})[cfg["id"]] = len(w.outcomes)
    if stats["capped"] or exp.cap_hit:
        rep.caps.append(f"{cfg['id']}: cap hit (executions={stats['executions']})")
    if sample is not None:
        rep.sample({"config": cfg["id"], "default_schedule": sample.trace[:70]})
    return rep.part()


def configs(tier: str, seed: int) -> List[Dict[str, Any]]:
    out = []

    def add(ops, lock, bound=None, max_jumps=0, max_pauses=0, sample=False, max_exec=None, pause_only=None,
            max_partitions=0, init=None, ptr_fault=False):
        cid = f"{lock}/{'+'.join(ops)}/jumps{max_jumps}/pauses{max_pauses}" + (f"/b{bound}" if bound is not None else "") \
            + (f"/pause-only-{'+'.join(pause_only)}" if pause_only else "") \
            + (f"/partitions{max_partitions}" if max_partitions else "") + (f"/{init}" if init else "") \
            + ("/A-pointer-write-503" if ptr_fault else "")
        out.append({"id": cid, "backend": "s3", "topology": "separate", "clock": "TICK", "ops": list(ops), "lock": lock,
                    "bound": bound, "max_jumps": max_jumps, "max_pauses": max_pauses, "tier": tier, "seed": seed,
                    "sample": sample, "max_exec": max_exec, "pause_only": pause_only, "max_partitions": max_partitions,
                    "init": init, "ptr_fault": ptr_fault})

    # the last pair: two metadata-only commits (no new snapshot) derived from the same version
    pairs = [("append", "append"), ("append", "expire"), ("append", "delete_snap_first"),
             ("delete_snap_first", "delete_snap_second")]
    for lock in ("cas", "grantall"):
        for p in pairs:
            add(p, lock, sample=(lock == "cas" and p == pairs[0]))
    # A's first pointer write is answered 503 without being applied, B commits at any point around it
    add(("append", "append"), "grantall", ptr_fault=True)
    add(("append", "append"), "cas", ptr_fault=True, bound=2 if tier == "quick" else None)
    # the pointer object is missing when the committers start (create-if-absent is the commit point)
    add(("append", "append"), "grantall", init="pointer_lost", bound=2 if tier == "quick" else 3)
    add(("append", "append"), "cas", init="pointer_lost", bound=2 if tier == "quick" else 3)
    if tier != "quick":
        add(("append", "append"), "cas", bound=1, max_pauses=1, pause_only=["A"], init="pointer_lost")
    # the committer is paused past its lease and, from then on, cut off from the lock object (renewals and fence reads fail)
    add(("append", "append"), "cas", bound=1, max_pauses=1, max_partitions=1, pause_only=["A"])
    if tier == "quick":
        add(("append", "append"), "cas", bound=1, max_pauses=1, pause_only=["A"])  # symmetric actors: pausing A suffices
        add(("append", "expire"), "cas", bound=0, max_pauses=1)
        add(("append", "append"), "cas", bound=1, max_jumps=1)
        add(("append", "append"), "grantall", bound=2, max_jumps=1)
    else:
        for p in pairs:
            add(p, "cas", bound=1, max_pauses=1)
            add(p, "cas", bound=2, max_jumps=1)
            add(p, "grantall", max_jumps=1)
        add(("append", "append"), "cas", bound=0, max_pauses=2)
        add(("append", "append"), "cas", bound=1, max_jumps=2)
        add(("append", "append", "append"), "cas", bound=0, max_pauses=1)
        add(("append", "append", "append"), "grantall", bound=1)
    return out


def run(tier: str, seed: int) -> Report:
    rep = Report("C08", tier, seed, "model_checking")
    for part in pmap("checks.c08", "run_config", configs(tier, seed)):
        rep.merge(part)
    rep.cov["exhaustive"] = not rep.caps
    rep.cov["rule"] = ("one execution = one complete interleaving at S3-request granularity incl. heartbeat threads, "
                       "clock jumps and process pauses; non-trivial = distinct (config, outcomes, pointer order)")
    rep.assumptions += [
        "in-memory S3: strongly consistent, AWS conditional-write semantics, ETag = md5(body), LastModified = virtual clock",
        "a delayed in-flight conditional PUT = the committer is descheduled at the request while the clock jumps past the lease; "
        "'applied but response delayed' = a preemption right after the request",
        "process pause freezes a committer together with its heartbeat thread; lease 60 s, jump 61 s; pauses are placed "
        "only while the paused committer owns the lock object (elsewhere a pause is an ordinary delay)",
        "the version 'validated against' is observed as the metadata file read inside MetadataManager.commit (harness-side wrapper)",
    ]
    return rep


def replay(case: Dict[str, Any]) -> Dict[str, Any]:
    d = case["detail"]
    cfg = d["config"]
    rep = Report("C08", cfg["tier"], cfg["seed"], "model_checking")
    w = C08World(tuple(cfg["ops"]), cfg["lock"], rep, cfg)
    try:
        exp = Explorer(w, seed=cfg["seed"], clock_mode="TICK", max_jumps=cfg.get("max_jumps", 0),
                       jump_amounts=[LEASE_JUMP] if cfg.get("max_jumps") else [],
                       has_extra=bool(cfg.get("max_pauses") or cfg.get("max_partitions")))
        exp.shared_keys, exp.shared_prefixes = set(d["shared_keys"]), set(d["shared_prefixes"])
        ex = exp.execute(d["choices"])
        w.check(ex)
    finally:
        w.close()
    return {"violated": bool(rep.violations), "schedule": ex.trace, "violations": list(rep.violations.values())}
