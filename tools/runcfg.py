#!/venv/bin/python
"""Debug helper: run one configuration of one check inline and print what it found.
usage: tools/runcfg.py <check module> '<cfg json or config id substring>' [tier]"""
import json, sys, os
sys.path.insert(0, '/verif')
if not os.environ.get('PYTHONPATH'):
    sys.path.insert(0, '/repo/src')  # default: the tree under /repo; a PYTHONPATH selects another one
from dsmc.env import install, REAL_TIME
install()
import importlib
mod = importlib.import_module('checks.' + sys.argv[1])
tier = sys.argv[3] if len(sys.argv) > 3 else 'quick'
arg = sys.argv[2]
if arg.startswith('{'):
    cfgs = [json.loads(arg)]
else:
    cfgs = [c for c in mod.configs(tier, 0) if arg in c['id']]
for cfg in cfgs:
    t0 = REAL_TIME()
    part = mod.run_config(cfg)
    cov = {k: v for k, v in part['cov'].items() if not isinstance(v, (dict, list))}
    print('==', cfg['id'], 'wall %.1fs' % (REAL_TIME() - t0), cov, 'caps', part['caps'])
    print('violations', len(part['violations']))
    for k, v in list(part['violations'].items())[:int(os.environ.get('NV', '2'))]:
        print(' KEY', k)
        d = v['detail']
        if 'schedule' in d:
            print('   ' + '\n   '.join(d['schedule']))
        print('  PROBLEMS', d.get('problems'), d.get('outcomes'))
