# executed by mkmanifest.py ; add(pid, engine, category, technique, text, note, design_ref)
add("C16", "E3", "fault_enumeration",
    "exhaustive power-loss state enumeration: every prefix of the traced os-call sequence x every subset of unflushed effects",
    "Every prefix of the real write path's os-level trace (write/fsync/rename/unlink/dir-fsync) over multi-operation "
    "histories, crossed with every subset of not-yet-durable effects, is materialised in a POSIX durability model and "
    "checked: a surviving pointer implies every reachable file survives with final content. Exhaustive within the "
    "histories run; this is the right level because the property is an ordering property of a short syscall sequence.",
    "POSIX durability model (content at fsync(fd), entries at fsync(dirfd), atomic rename); pyarrow writer bytes are "
    "volatile until the library's fsync; seams see every os call the library's modules make (module-level os/tempfile/pq proxies).",
    "DESIGN.md 2.4 E3c, 3 C16")
add("C01", "E1", "model_checking",
    "stateless interleaving exploration of the real commit path under a controlled scheduler (state cache, deviation bounds)",
    "Every interleaving of 2 writers (all unordered operation pairs x {shared handle, separate handles} x {local flock, "
    "CAS-S3 over an in-memory S3} x {ticking, frozen clock}) at shared-storage-operation granularity is executed on the "
    "real code, without a preemption bound; 3-4 writers under a stated preemption bound. Each complete execution is judged "
    "against a sequential reference model applied in pointer-advance order. A coverage statement over schedules is exactly "
    "what the property quantifies over.",
    "Scheduling points only at operations on objects shared by >=2 actors (dynamic shared-set fixpoint, Lipton reduction); "
    "in-memory S3 is strongly consistent with AWS conditional-write semantics; local backend uses real flock/rename on tmpfs; "
    "the virtual clock replaces wall time; no unsynchronised shared memory between points (shared-field audit in DESIGN.md).",
    "DESIGN.md 2.4 E1, 3 C01")
add("C06", "E1", "model_checking",
    "stateless interleaving exploration (collector || transactions) on the real code with state cache",
    "Every interleaving of one collector with a committing / rolling-back / conflicting transaction, at shared-storage-"
    "operation granularity, local and CAS-S3, with the transaction's files on both sides of the grace period; "
    "2 actors unbounded, 3 actors under a stated preemption bound. Oracle: every file of every snapshot of the final "
    "metadata exists and parses (independent reader).",
    "Same engine assumptions as C01; grace 1 h vs. millisecond virtual runs (the property's proviso).",
    "DESIGN.md 3 C06")
add("C08", "E1", "model_checking",
    "stateless interleaving exploration at S3-request granularity with lease-lapse deviations (clock jumps, process pauses)",
    "Every interleaving of 2 committers (plus their heartbeat threads) at S3-request granularity on the real code, with "
    "the real CAS lock and with a lock granting everyone; unbounded without time deviations, and under stated preemption "
    "bounds with clock jumps past the lease / process pauses inserted at every point. Oracles: the CAS replaced the pointer "
    "naming the validated version, serializability of acknowledged commits, no outcome other than success or a retryable conflict.",
    "In-memory S3 with AWS conditional-write semantics; the validated version is observed by a harness-side wrapper of "
    "MetadataManager._read_metadata_file inside commit; a delayed in-flight PUT is modelled as descheduling at the request.",
    "DESIGN.md 3 C08")
add("C20", "E2/E4", "model_checking",
    "explicit-state BFS over storage-operation sequences on both backends + exhaustive seek/read programs + k-failure fault sequences",
    "All operation sequences up to a depth over a 6-key space are applied step by step to the local backend and to the S3 "
    "backend (with and without prefix) over an in-memory S3, observations compared pairwise; all seek/read programs up to a "
    "length bound on boundary-size objects against a local file; every k-consecutive-transient-failure and permanent-error "
    "placement per request. States are store contents; every transition runs on the real backends.",
    "In-memory S3 is strongly consistent; documented asymmetries (directories as keys) are checked against the S3 backend's own spec.",
    "DESIGN.md 3 C20")
