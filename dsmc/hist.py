"""E2 - explicit-state search over operation histories on REAL tables.

A *state* is an actual table (a directory on tmpfs, or the object map of the
in-memory S3) plus harness bookkeeping: the virtual clock and id counters, the
open (uncommitted) transactions, and the reference model - the full commit
history with, for every snapshot ever committed, its id, commit index, true
parent, file set, rows and the bytes of its manifests as recorded by the
*independent reader* at commit time.

A *transition* copies a stored state into the fixed working location of the
variant (so the location spelling under test never changes), re-opens the table
with `datashard.load_table` and applies one alphabet symbol through the real
API.  After every transition the independent reader re-reads the table, the
oracle module of the running check judges (pre, op, post), and the successor is
deduplicated by a canonical form (names, ids and absolute times abstracted; list
order, timestamp order, ancestry, manifest structure, file ages as grace
buckets, open transactions kept).

Breadth first, level synchronous: the parent owns the visited set, worker
processes expand slices of the frontier from state directories stored under a
shared scratch root.  Exhaustive within the stated depth bound; no sampling.
"""
from __future__ import annotations

import copy
import hashlib
import importlib
import io
import json
import os
import pickle
import random
import shutil
from typing import Any, Dict, List, Optional, Sequence, Set, Tuple

from . import reader
from .env import ENV, T0
from .report import HarnessError, Report, pmap, progress, scratch_root

HOUR_MS = 3600_000
DAY_MS = 24 * HOUR_MS
GRACES = (0, HOUR_MS, 10 * DAY_MS)
GRACE_LABEL = {0: "0", HOUR_MS: "1h", 10 * DAY_MS: "10d"}
INFLIGHT_TIMEOUT_MS = 24 * HOUR_MS  # garbage_collector.DEFAULT_INFLIGHT_TIMEOUT_MS (documented abandonment window)
AGE_BUCKETS_MS = (0, HOUR_MS, INFLIGHT_TIMEOUT_MS, 10 * DAY_MS)
STEP_BACK_S = 0.005
RETENTION_PROP = "datashard.snapshot.retention-count"
PREV_MAX_PROP = "write.metadata.previous-versions-max"
DEFAULT_PREV_MAX = 100
HINT = reader.HINT
INFLIGHT_DIR = "metadata/inflight/"
MANIFEST_DIR = "metadata/manifests/"

Op = Tuple[Any, ...]

# ---------------------------------------------------------------------------
# alphabet
# ---------------------------------------------------------------------------
FULL_ALPHABET: Tuple[Op, ...] = (
    ("append",),
    ("append2",),
    ("delete_file", "oldest"),
    ("delete_file", "newest"),
    ("expire", "all_but_current"),
    ("expire", "oldest"),
    ("delete_snapshot", "oldest"),
    ("delete_snapshot", "current"),
    ("delete_snapshot", "middle"),
    ("gc", 0),
    ("gc", HOUR_MS),
    ("gc", 10 * DAY_MS),
    ("age", 7200),
    ("open_tx",),
    ("commit_tx", 0),
    ("commit_tx", 1),
    ("rollback_tx", 0),
    ("rollback_tx", 1),
    ("failed_commit",),
)
# an already registered data file is registered again (a retried ingestion whose first attempt had landed):
# the file is then listed by two manifests of the current snapshot
REREGISTER_OPS: Tuple[Op, ...] = (("reregister_file", "newest"), ("reregister_file", "oldest"))
# a pre-built data file is registered (append_files) under a spelling that is not the canonical table-relative one
SPELLED_OPS: Tuple[Op, ...] = (("register_spelled", "./data/"), ("register_spelled", "data//"), ("register_spelled", "/data/./"))
# two pre-built files registered by ONE commit under the slash-less table-relative spelling ("data/x.parquet"; the
# library's own appends store "/data/x.parquet"): a later partial delete rewrites their manifest
REGISTER_TWO_OPS: Tuple[Op, ...] = (("register_two", "data/"), ("register_two", "/data/"))
STEP_BACK_OPS: Tuple[Op, ...] = (("append_sb",), ("delete_file_sb", "newest"))
AGE_LONG: Op = ("age", 11 * 24 * 3600)


def op_label(op: Sequence[Any]) -> str:
    return ":".join(str(x) for x in op)


def op_kind(op: Sequence[Any]) -> str:
    return str(op[0])


# ---------------------------------------------------------------------------
# variants
# ---------------------------------------------------------------------------
def variant(name: str, *, backend: str = "local", layout: str = "abs", loc: str = "tbl", spelling: str = "absolute",
            clock: str = "TICK", props: bool = False, base: Sequence[Op] = (), depth: int = 3,
            alphabet: Sequence[Op] = FULL_ALPHABET, max_open: int = 2, dedupe: bool = True,
            props_late: bool = False, tz: Optional[str] = None) -> Dict[str, Any]:
    """props_late: the retention / metadata-log properties are committed AFTER the base history, i.e. lowered on a
    live table whose snapshot list and metadata log are already longer than the new bounds."""
    return {"name": name, "backend": backend, "layout": layout, "loc": loc, "spelling": spelling, "clock": clock,
            "props": props, "base": [tuple(o) for o in base], "depth": depth, "alphabet": [tuple(o) for o in alphabet],
            "max_open": max_open, "dedupe": dedupe, "props_late": props_late, "tz": tz}


# ---------------------------------------------------------------------------
# independent table reading (memoised by content; json / fastavro / pyarrow only)
# ---------------------------------------------------------------------------
_memo: Dict[Tuple[str, bytes], Any] = {}


class _One:
    def __init__(self, raw: bytes):
        self.raw = raw

    def get(self, rel: str) -> bytes:
        return self.raw


def _parsed(kind: str, raw: bytes, what: str) -> Any:
    k = (kind, hashlib.md5(raw).digest())
    v = _memo.get(k)
    if v is None:
        if kind == "avro":
            v = reader._avro(raw, what)
        else:
            v = tuple(reader.canon_rows(reader.read_parquet(_One(raw), what)))
        if len(_memo) > 200_000:
            _memo.clear()
        _memo[k] = v
    return v


class SV:
    """One snapshot as the independent reader sees it."""
    __slots__ = ("id", "ts", "seq", "parent", "op", "mlist_raw", "mlist", "manifests", "entries", "data_files",
                 "rows", "sig", "err")

    def files(self) -> Set[str]:
        return {self.mlist, *self.manifests, *self.data_files}

    def record(self) -> Tuple[Any, ...]:
        return (self.id, self.ts, self.mlist_raw, self.seq, self.op)


class TS:
    """Whole table: metadata json, snapshots in LIST order, on-disk inventory {rel: mtime}."""

    def __init__(self) -> None:
        self.md: Optional[Dict[str, Any]] = None
        self.mdfile: Optional[str] = None
        self.snaps: List[SV] = []
        self.byid: Dict[int, SV] = {}
        self.files: Dict[str, float] = {}
        self.errors: List[str] = []

    @property
    def current_id(self) -> Optional[int]:
        c = (self.md or {}).get("current_snapshot_id")
        return None if c in (None, -1) else c

    @property
    def ids(self) -> List[int]:
        return [s.id for s in self.snaps]

    def reachable(self) -> Set[str]:
        out: Set[str] = set()
        for s in self.snaps:
            out |= s.files()
        return out


def read_ts(view: Any, listing: Dict[str, float]) -> TS:
    t = TS()
    t.files = listing
    cache: Dict[str, Optional[bytes]] = {}

    def get(rel: str) -> Optional[bytes]:
        if rel not in cache:
            cache[rel] = view.get(rel)
        return cache[rel]

    try:
        t.md = reader.read_metadata(view)
    except reader.ReadError as e:
        t.errors.append(f"metadata: {e}")
        return t
    if t.md is None:
        t.errors.append("no pointer / metadata")
        return t
    t.mdfile = t.md.get("__file__")
    for s in t.md.get("snapshots", []):
        sv = SV()
        sv.id, sv.ts, sv.seq = s["snapshot_id"], s["timestamp_ms"], s.get("sequence_number")
        sv.parent, sv.op = s.get("parent_snapshot_id"), s.get("operation")
        sv.mlist_raw = s["manifest_list"]
        sv.mlist = reader.norm(sv.mlist_raw)
        sv.manifests, sv.entries, sv.data_files, sv.rows, sv.sig, sv.err = [], [], [], (), b"", None
        try:
            raw = get(sv.mlist)
            if raw is None:
                raise reader.ReadError(f"manifest list missing: {sv.mlist}")
            h = hashlib.md5(raw)
            seen: Set[str] = set()
            for r in _parsed("avro", raw, sv.mlist):
                mp = reader.norm(r["manifest_path"])
                sv.manifests.append(mp)
                mraw = get(mp)
                if mraw is None:
                    raise reader.ReadError(f"manifest missing: {mp}")
                h.update(hashlib.md5(mraw).digest())
                for e in _parsed("avro", mraw, mp):
                    fp = reader.norm(e["data_file"]["file_path"])
                    raw_fp = e["data_file"]["file_path"]
                    sv.entries.append({"manifest": mp, "status": e["status"], "snapshot_id": e["snapshot_id"],
                                       "spelling": "" if raw_fp == "/" + fp else raw_fp[:len(raw_fp) - len(fp.rsplit("/", 1)[-1])],
                                       "sequence_number": e.get("sequence_number"),
                                       "file_sequence_number": e.get("file_sequence_number"), "file_path": fp})
                    if fp not in seen:
                        seen.add(fp)
                        sv.data_files.append(fp)
            sv.sig = h.digest()
            rows: List[Any] = []
            for fp in sv.data_files:
                draw = get(fp)
                if draw is None:
                    raise reader.ReadError(f"data file missing: {fp}")
                rows.extend(_parsed("pq", draw, fp))
            sv.rows = tuple(sorted(rows, key=repr))
        except reader.ReadError as e:
            sv.err = str(e)
            t.errors.append(f"snapshot {sv.id}: {e}")
        t.snaps.append(sv)
        t.byid[sv.id] = sv
    return t


# ---------------------------------------------------------------------------
# reference model (immutable-by-convention; `advance` returns a new one)
# ---------------------------------------------------------------------------
class Model:
    def __init__(self) -> None:
        self.commits: List[Dict[str, Any]] = []  # every snapshot ever committed, in commit order
        self.byid: Dict[int, Dict[str, Any]] = {}
        self.origin: Dict[str, Tuple[int, Any]] = {}  # data file -> (adding snapshot id, its sequence number)
        self.readded: Dict[str, Tuple[Tuple[int, Any], ...]] = {}  # data file -> later registrations of the same file
        self.versions: List[str] = []  # chain of published metadata files, last = current
        self.last_seq: int = 0

    def clone(self) -> "Model":
        m = Model()
        m.commits, m.byid, m.origin = list(self.commits), dict(self.byid), dict(self.origin)
        m.readded = dict(self.readded)
        m.versions, m.last_seq = list(self.versions), self.last_seq
        return m

    def idx(self, sid: int) -> int:
        return self.byid[sid]["idx"]

    def ancestors(self, sid: int) -> List[int]:
        """True ancestors of a committed snapshot, nearest first (full history, deleted ones included)."""
        out: List[int] = []
        p = self.byid[sid]["parent"]
        while p is not None and p in self.byid and p not in out:
            out.append(p)
            p = self.byid[p]["parent"]
        return out

    def nearest_retained_ancestor(self, sid: int, retained: Set[int]) -> Optional[int]:
        for a in self.ancestors(sid):
            if a in retained:
                return a
        return None

    def advance(self, pre: TS, post: TS, op: Op) -> Tuple["Model", List[int]]:
        m = self.clone()
        new_ids = [s.id for s in post.snaps if s.id not in m.byid]
        for sid in new_ids:
            s = post.byid[sid]
            c = {"id": sid, "idx": len(m.commits), "parent": pre.current_id, "ts": s.ts, "seq": s.seq,
                 "mlist": s.mlist, "sig": s.sig, "files": tuple(sorted(s.data_files)), "rows": s.rows,
                 "record": s.record(), "op": op_label(op), "readable": s.err is None}
            m.commits.append(c)
            m.byid[sid] = c
            for fp in s.data_files:
                m.origin.setdefault(fp, (sid, s.seq))
            if op[0] == "reregister_file":
                live = _live_files(pre, self)
                if live:
                    fp = live[0] if op[1] == "oldest" else live[-1]
                    m.readded[fp] = m.readded.get(fp, ()) + ((sid, s.seq),)
        if post.mdfile is not None and (not m.versions or m.versions[-1] != post.mdfile):
            m.versions.append(post.mdfile)
        if post.md is not None:
            m.last_seq = post.md.get("last_sequence_number", m.last_seq)
        return m, new_ids


# ---------------------------------------------------------------------------
# stores: where the table of the state under expansion lives
# ---------------------------------------------------------------------------
def _listing_local(real: str) -> Dict[str, float]:
    out: Dict[str, float] = {}
    real = os.path.realpath(real)
    for r, ds, fs in os.walk(real):
        if r == real and ".locks" in ds:
            ds.remove(".locks")
        for f in fs:
            p = os.path.join(r, f)
            try:
                out[os.path.relpath(p, real)] = os.path.getmtime(p)
            except OSError:
                pass
    return out


class LocalStore:
    backend = "local"

    def __init__(self, v: Dict[str, Any], workdir: str):
        self.v = v
        self.work = workdir
        self.cwd: Optional[str] = None
        lay, name = v["layout"], v["loc"]
        j = os.path.join
        if lay == "abs":
            self.real = j(workdir, name.strip("/"))
            self.loc = j(workdir, name)
        elif lay == "abs-dotdot":
            os.makedirs(j(workdir, "x"), exist_ok=True)
            self.real = j(workdir, name)
            self.loc = j(workdir, "x", "..", name)
        elif lay == "rel":
            self.cwd = workdir
            self.real = os.path.normpath(j(workdir, name))
            self.loc = name
        elif lay == "rel-dot":
            self.real = j(workdir, "tbl")
            self.cwd = self.real
            self.loc = name  # "." or ""
        elif lay == "symlink-root":
            self.real = j(workdir, "real_" + name)
            self.loc = j(workdir, name)
        elif lay == "symlink-parent":
            self.real = j(workdir, "pdir", name)
            self.loc = j(workdir, "plink", name)
        else:
            raise HarnessError(f"unknown layout {lay}")
        os.makedirs(self.real, exist_ok=True)
        if lay == "symlink-root" and not os.path.islink(self.loc):
            os.symlink(self.real, self.loc)
        if lay == "symlink-parent" and not os.path.islink(j(workdir, "plink")):
            os.symlink(j(workdir, "pdir"), j(workdir, "plink"))
        self._saved_cwd: Optional[str] = None

    def __enter__(self) -> "LocalStore":
        from .localfs import install_local_seams
        from .tables import use_local

        install_local_seams()
        use_local()
        if self.cwd is not None:
            self._saved_cwd = os.getcwd()
            os.chdir(self.cwd)
        return self

    def __exit__(self, *a: Any) -> None:
        if self._saved_cwd is not None:
            os.chdir(self._saved_cwd)

    def clear(self) -> None:
        for e in os.listdir(self.real):
            p = os.path.join(self.real, e)
            if os.path.isdir(p) and not os.path.islink(p):
                shutil.rmtree(p)
            else:
                os.remove(p)

    def restore(self, sid: str) -> None:
        self.clear()
        shutil.copytree(sid, self.real, symlinks=True, dirs_exist_ok=True)

    def save(self, sid: str) -> None:
        shutil.copytree(self.real, sid, symlinks=True, ignore=shutil.ignore_patterns(".locks"))

    def view(self) -> Any:
        return reader.LocalView(self.real)

    def listing(self) -> Dict[str, float]:
        return _listing_local(self.real)


class S3Store:
    backend = "s3"

    def __init__(self, v: Dict[str, Any], workdir: str):
        from .fakes3 import S3World

        self.v = v
        self.loc = v["loc"]
        self.prefix = self.loc.strip("/")
        self.world = S3World()

    def __enter__(self) -> "S3Store":
        self.world.__enter__()
        return self

    def __exit__(self, *a: Any) -> None:
        self.world.__exit__(None, None, None)

    def clear(self) -> None:
        self.world.s3.gates, self.world.s3.after = [], []
        self.world.s3.load_state({})

    def restore(self, sid: str) -> None:
        from .fakes3 import Obj

        with open(sid, "rb") as f:
            objs = pickle.load(f)
        self.world.s3.gates, self.world.s3.after = [], []
        self.world.s3.load_state({k: Obj(b, lm) for k, (b, lm) in objs.items()})

    def save(self, sid: str) -> None:
        objs = {k: (o.body, o.lm) for k, o in self.world.s3.objs.items() if "/.locks/" not in "/" + k}
        with open(sid, "wb") as f:
            pickle.dump(objs, f, protocol=4)

    def view(self) -> Any:
        return reader.S3View(self.world.s3, self.prefix)

    def listing(self) -> Dict[str, float]:
        p = self.prefix + "/" if self.prefix else ""
        return {k[len(p):]: o.lm for k, o in self.world.s3.objs.items()
                if k.startswith(p) and not k[len(p):].startswith(".locks/")}


def make_store(v: Dict[str, Any], workdir: str) -> Any:
    return S3Store(v, workdir) if v["backend"] == "s3" else LocalStore(v, workdir)


# ---------------------------------------------------------------------------
# canonical form
# ---------------------------------------------------------------------------
def age_bucket(age_ms: int) -> int:
    return sum(1 for t in AGE_BUCKETS_MS if age_ms > t)


def ms(t: float) -> int:
    return int(round(t * 1000))


def file_class(rel: str) -> str:
    b = rel.rsplit("/", 1)[-1]
    if b.startswith(".tmp."):
        return "temp"
    if rel.startswith(INFLIGHT_DIR):
        return "marker"
    if rel.startswith(MANIFEST_DIR):
        return "manifest_list" if b.startswith("manifest_list_") else "manifest"
    if rel.startswith("data/"):
        return "data"
    if rel.startswith("metadata/") and b.endswith(".metadata.json"):
        return "metadata_json"
    if rel == HINT:
        return "pointer"
    return "other"


def marker_targets(view: Any, ts: TS, clock_ms: int) -> Dict[str, Tuple[str, int]]:
    """marker rel path -> (protected target path, marker age ms), parsed independently."""
    out: Dict[str, Tuple[str, int]] = {}
    for rel, mt in ts.files.items():
        if not rel.startswith(INFLIGHT_DIR) or not rel.endswith(".inflight"):
            continue
        b = rel.rsplit("/", 1)[-1]
        target = "data/" + b[:-len(".inflight")]
        raw = view.get(rel)
        try:
            t = json.loads((raw or b"").decode("utf-8")).get("file_path")
            if isinstance(t, str) and t:
                target = t.lstrip("/")
        except Exception:
            pass
        out[rel] = (target, clock_ms - ms(mt))
    return out


def canon(v: Dict[str, Any], ts: TS, model: Model, txs: List[Dict[str, Any]], clock: float,
          markers: Dict[str, Tuple[str, int]]) -> Tuple[Any, ...]:
    clock_ms = ms(clock)
    md = ts.md or {}
    retained = ts.ids
    rset = set(retained)
    pos = {sid: i for i, sid in enumerate(retained)}
    extra: Dict[Any, int] = {}

    def sid_(x: Any) -> Any:
        if x is None:
            return "N"
        if x == -1:
            return "-"
        if x in pos:
            return pos[x]
        return ("x", extra.setdefault(x, len(extra)))

    fidx: Dict[str, int] = {}
    midx: Dict[str, int] = {}

    def fi(p: str) -> int:
        return fidx.setdefault(p, len(fidx))

    def mi(p: str) -> int:
        return midx.setdefault(p, len(midx))

    stamps = sorted({s.ts for s in ts.snaps} | {clock_ms})
    rank = {t: i for i, t in enumerate(stamps)}
    exact = v["clock"] == "STEP-BACK"
    order = sorted((sid for sid in retained if sid in model.byid), key=model.idx)
    crank = {sid: i for i, sid in enumerate(order)}
    snaps_c = []
    for s in ts.snaps:
        mans = []
        by_m: Dict[str, List[Any]] = {}
        for e in s.entries:
            by_m.setdefault(e["manifest"], []).append(
                (fi(e["file_path"]), e["status"], sid_(e["snapshot_id"]), e["file_sequence_number"],
                 e["sequence_number"]) + ((e["spelling"],) if e.get("spelling") else ()))  # stored non-canonically
        for m in s.manifests:
            mans.append((mi(m), tuple(by_m.get(m, ()))))
        near = model.nearest_retained_ancestor(s.id, rset) if s.id in model.byid else "?"
        snaps_c.append((rank[s.ts], (clock_ms - s.ts) if exact else 0, s.seq, sid_(s.parent), s.op,
                        crank.get(s.id, "?"), sid_(near), mi(s.mlist), tuple(mans), s.err is not None))
    reach = ts.reachable()

    def agerep(age_ms: int) -> Any:
        # STEP-BACK: ages can be negative and ms differences decide which side of "now" a file lies on after the
        # next ticks, so small ages are kept exactly there; otherwise the bucket relative to the graces is enough
        if exact and age_ms < 60_000:
            return age_ms
        return ("b", age_bucket(age_ms)) if exact else age_bucket(age_ms)

    def bucket(rel: str) -> Any:
        mt = ts.files.get(rel)
        return "gone" if mt is None else agerep(clock_ms - ms(mt))

    ages_f = tuple(bucket(p) for p in fidx)  # insertion order == index order
    ages_m = tuple(bucket(p) for p in midx)
    txs_c = []
    tx_files: Set[str] = set()
    for tx in txs:
        w = [p.lstrip("/") for p in tx["written"]]
        tx_files.update(w)
        txs_c.append((tuple(bucket(p) for p in w), tuple(bucket(mk) for mk in tx["markers"]),
                      agerep(clock_ms - ms(tx["born"])), len(tx["ops"])))
        tx_files.update(tx["markers"])
    protected = {t for (t, age) in markers.values() if age <= INFLIGHT_TIMEOUT_MS}
    log_files = {str(e.get("metadata-file", "")).lstrip("/") for e in md.get("metadata_log", [])}
    inv: Dict[Any, int] = {}
    for rel in ts.files:
        if rel in reach or rel in tx_files or rel == HINT or rel == f"metadata/{ts.mdfile}":
            continue
        c = file_class(rel)
        if c == "marker":
            tgt = markers.get(rel, ("?", 0))[0]
            k: Any = (c, bucket(rel), tgt in ts.files, tgt in reach)
        elif c == "metadata_json":
            # ages of metadata json files are not part of the form: nothing in the library depends on them
            # (garbage collection only scans data/ and metadata/manifests/)
            k = (c, rel in log_files, rel.rsplit("/", 1)[-1] in model.versions)
        elif c in ("other", "pointer"):
            k = (c,)
        else:
            k = (c, bucket(rel), rel in protected)
        inv[k] = inv.get(k, 0) + 1
    mlog = tuple((str(e.get("metadata-file", "")).lstrip("/") in ts.files) for e in md.get("metadata_log", []))
    slog = tuple((sid_(e.get("snapshot_id")), rank.get(e.get("timestamp_ms"), "?")) for e in md.get("snapshot_log", []))
    return (v["clock"], tuple(snaps_c), sid_(md.get("current_snapshot_id")), md.get("last_sequence_number"),
            rank[clock_ms], slog, mlog, tuple(sorted((md.get("properties") or {}).items())), ages_f, ages_m,
            tuple(txs_c), tuple(sorted(inv.items(), key=repr)), tuple(ts.errors and ["broken"] or []))


def digest_of(c: Tuple[Any, ...]) -> str:
    return hashlib.md5(repr(c).encode()).hexdigest()[:20]


# ---------------------------------------------------------------------------
# applying one alphabet symbol through the real API
# ---------------------------------------------------------------------------
class Ctx:
    """Mutable bookkeeping of the state being built (copied per transition)."""

    def __init__(self, txs: List[Dict[str, Any]], rowctr: int):
        self.txs = [dict(t) for t in txs]
        self.rowctr = rowctr

    def next_row(self) -> Dict[str, Any]:
        from .tables import row

        n = self.rowctr
        self.rowctr += 1
        return row(n)


def _live_files(ts: TS, model: Model) -> List[str]:
    cur = ts.byid.get(ts.current_id) if ts.current_id is not None else None
    if cur is None:
        return []
    fs = list(cur.data_files)
    fs.sort(key=lambda p: (model.byid[model.origin[p][0]]["idx"] if p in model.origin and model.origin[p][0] in model.byid else -1))
    return fs


def _commit_order(ts: TS, model: Model) -> List[int]:
    return sorted((sid for sid in ts.ids if sid in model.byid), key=model.idx)


def snapshot_target(which: str, ts: TS, model: Model) -> Optional[int]:
    order = _commit_order(ts, model)
    cur = ts.current_id
    if which == "current":
        return cur
    if which == "oldest":
        return order[0] if order and order[0] != cur else None
    if which == "middle":
        cand = [s for s in order[1:] if s != cur]
        return cand[len(cand) // 2] if len(order) >= 3 and cand else None
    raise HarnessError(which)


def expire_cutoff(which: str, ts: TS) -> int:
    stamps = sorted({s.ts for s in ts.snaps})
    if which == "all_but_current":
        return stamps[-1] + 1
    return stamps[1] if len(stamps) >= 2 else stamps[0] + 1


def enabled_ops(v: Dict[str, Any], ts: TS, model: Model, txs: List[Dict[str, Any]]) -> List[Op]:
    out: List[Op] = []
    live = _live_files(ts, model)
    n = len(ts.snaps)
    for op in v["alphabet"]:
        k = op[0]
        if k in ("delete_file", "delete_file_sb", "reregister_file"):
            if not live or (op[1] == "oldest" and len(live) < 2):
                continue  # with one live file `oldest` == `newest`
        elif k == "expire":
            if n < 2:
                continue
        elif k == "delete_snapshot":
            if snapshot_target(op[1], ts, model) is None:
                continue
        elif k == "open_tx":
            if len(txs) >= v["max_open"]:
                continue
        elif k in ("commit_tx", "rollback_tx"):
            if op[1] >= len(txs):
                continue
        elif k == "age":
            # ageing matters only while something on disk can still change its grace bucket
            pass
        out.append(tuple(op))
    return out


def rebuild_tx(table: Any, rec: Dict[str, Any]) -> Any:
    """Re-create an open transaction object on the re-opened table (the process 'continuing'):
    the files and markers it wrote are part of the stored state, its queue is restored verbatim."""
    tx = table.new_transaction()
    tx.begin()
    tx._operations = copy.deepcopy(rec["ops"])
    tx._written_files = list(rec["written"])
    tx._inflight_markers = list(rec["markers"])
    return tx


def apply_op(table: Any, op: Op, pre: TS, model: Model, ctx: Ctx) -> Dict[str, Any]:
    """Run one symbol.  Returns {"status": ok|aborted|error|failed_as_injected, "exc":..., ...}."""
    from datashard import GarbageCollectionAborted

    k = op[0]
    out: Dict[str, Any] = {"status": "ok", "exc": None}
    try:
        if k in ("append", "append_sb"):
            if k == "append_sb":
                ENV.clock = round(ENV.clock - STEP_BACK_S, 6)
            table.append_records([ctx.next_row()])
        elif k == "append2":
            with table.new_transaction() as tx:
                tx.append_data([ctx.next_row()])
                tx.append_data([ctx.next_row()])
        elif k == "append3":  # three files in ONE manifest: two successive partial deletes rewrite it twice
            with table.new_transaction() as tx:
                for _ in range(3):
                    tx.append_data([ctx.next_row()])
        elif k in ("delete_file", "delete_file_sb"):
            live = _live_files(pre, model)
            victim = live[0] if op[1] == "oldest" else live[-1]
            out["victim"] = victim
            if k == "delete_file_sb":
                ENV.clock = round(ENV.clock - STEP_BACK_S, 6)
            with table.new_transaction() as tx:
                tx.delete_files([victim])
        elif k == "register_spelled":
            import dataclasses
            import uuid as _uuid

            name = f"pre_{_uuid.uuid4().hex[:10]}.parquet"
            dfm = table.file_manager.data_file_manager
            df = dfm.write_data_file(f"data/{name}", [ctx.next_row()], table._get_current_schema())
            out["victim"] = f"data/{name}"
            with table.new_transaction() as tx:
                tx.append_files([dataclasses.replace(df, file_path=op[1] + name)])
        elif k == "register_two":
            import dataclasses
            import uuid as _uuid

            dfm = table.file_manager.data_file_manager
            built = []
            for _ in range(2):
                name = f"pre_{_uuid.uuid4().hex[:10]}.parquet"
                df = dfm.write_data_file(f"data/{name}", [ctx.next_row()], table._get_current_schema())
                built.append(dataclasses.replace(df, file_path=op[1] + name))
            with table.new_transaction() as tx:
                tx.append_files(built)
        elif k == "reregister_file":
            live = _live_files(pre, model)
            victim = live[0] if op[1] == "oldest" else live[-1]
            out["victim"] = victim
            dfs = [d for d in table._get_all_data_files() if d.file_path.lstrip("/") == victim.lstrip("/")]
            if not dfs:
                raise HarnessError(f"reregister_file: {victim} is not a live file of the table")
            with table.new_transaction() as tx:
                tx.append_files([dfs[0]])
        elif k == "expire":
            cut = expire_cutoff(op[1], pre)
            out["cutoff"] = cut
            with table.new_transaction() as tx:
                tx.expire_snapshots(cut)
        elif k == "delete_snapshot":
            tgt = snapshot_target(op[1], pre, model)
            out["target"] = tgt
            out["returned"] = table.snapshot_manager.delete_snapshot(tgt)
        elif k == "gc":
            try:
                out["stats"] = table.garbage_collect(op[1])
            except GarbageCollectionAborted as e:
                out["status"], out["exc"] = "aborted", f"{type(e).__name__}: {e}"[:300]
        elif k == "age":
            ENV.advance(float(op[1]))
        elif k == "open_tx":
            tx = table.new_transaction()
            tx.begin()
            tx.append_data([ctx.next_row()])
            ctx.txs.append({"ops": copy.deepcopy(tx._operations), "written": list(tx._written_files),
                            "markers": list(tx._inflight_markers), "born": ENV.clock})
        elif k == "commit_tx":
            rec = ctx.txs.pop(op[1])
            rebuild_tx(table, rec).commit()
        elif k == "rollback_tx":
            rec = ctx.txs.pop(op[1])
            rebuild_tx(table, rec).rollback()
        elif k == "failed_commit":
            st = table.storage
            fired = [0]
            orig_w, orig_cas = st.write_file, getattr(st, "write_file_cas", None)

            def w(path: str, content: bytes) -> None:
                if path.lstrip("/") == HINT and not fired[0]:
                    fired[0] = 1
                    raise OSError("injected: pointer write failed")
                return orig_w(path, content)

            def cas(path: str, content: bytes, etag: Any) -> None:
                if path.lstrip("/") == HINT and not fired[0]:
                    fired[0] = 1
                    raise OSError("injected: pointer write failed")
                return orig_cas(path, content, etag)

            st.write_file = w
            if orig_cas is not None:
                st.write_file_cas = cas
            try:
                table.append_records([ctx.next_row()])
                raise HarnessError("failed_commit: the injected pointer fault did not surface")
            except HarnessError:
                raise
            except Exception as e:  # noqa - expected
                if not fired[0]:
                    raise HarnessError(f"failed_commit: failed before the pointer write: {e!r}")
                out["status"], out["exc"] = "failed_as_injected", type(e).__name__
            finally:
                del st.write_file
                if orig_cas is not None:
                    del st.write_file_cas
        else:
            raise HarnessError(f"unknown op {op!r}")
    except HarnessError:
        raise
    except Exception as e:  # noqa - an operation refusing to run is an observation, not a harness failure
        out["status"], out["exc"] = "error", f"{type(e).__name__}: {e}"[:300]
    return out


# ---------------------------------------------------------------------------
# a transition, as handed to the oracle modules
# ---------------------------------------------------------------------------
class Transition:
    def __init__(self) -> None:
        self.v: Dict[str, Any] = {}
        self.op: Op = ()
        self.label = ""
        self.hist: List[str] = []
        self.pre: TS = TS()
        self.post: TS = TS()
        self.model_pre: Model = Model()
        self.model: Model = Model()
        self.new_ids: List[int] = []
        self.out: Dict[str, Any] = {}
        self.table: Any = None
        self.view: Any = None
        self.txs_pre: List[Dict[str, Any]] = []
        self.txs: List[Dict[str, Any]] = []
        self.clock_pre = 0.0
        self.clock = 0.0
        self.markers_pre: Dict[str, Tuple[str, int]] = {}
        self.pre_digest = ""
        self.post_digest = ""
        self.findings: List[Tuple[Dict[str, Any], Dict[str, Any], bool]] = []
        self.rep: Optional[Report] = None

    def flag(self, key: Dict[str, Any], detail: Dict[str, Any], prune: bool = True) -> None:
        self.findings.append((key, detail, prune))

    def base_detail(self) -> Dict[str, Any]:
        return {"variant": dict(self.v, alphabet=None), "history": list(self.hist), "status": self.out.get("status"),
                "exc": self.out.get("exc")}


# ---------------------------------------------------------------------------
# session: one variant inside one process
# ---------------------------------------------------------------------------
class Session:
    def __init__(self, v: Dict[str, Any], oracle_mod: Optional[str], rep: Report, tag: str = "w"):
        from .tables import fresh_dir

        self.v = v
        self.rep = rep
        self.oracle = importlib.import_module(oracle_mod).oracle if oracle_mod else None
        self.workdir = fresh_dir(f"e2-{tag}-{v['name']}")
        self.store = make_store(v, self.workdir)

    def __enter__(self) -> "Session":
        # host time zone of the process under test (POSIX TZ string, e.g. "XXX-14" = UTC+14); ages and timestamps
        # must not depend on it
        self._tz_saved = os.environ.get("TZ")
        if self.v.get("tz"):
            import time as _t

            os.environ["TZ"] = self.v["tz"]
            _t.tzset()
        self.store.__enter__()
        return self

    def __exit__(self, *a: Any) -> None:
        self.store.__exit__(None, None, None)
        shutil.rmtree(self.workdir, ignore_errors=True)
        if self.v.get("tz"):
            import time as _t

            if self._tz_saved is None:
                os.environ.pop("TZ", None)
            else:
                os.environ["TZ"] = self._tz_saved
            _t.tzset()

    def open(self) -> Any:
        from datashard import load_table

        return load_table(self.store.loc)

    def observe(self, model: Model, txs: List[Dict[str, Any]]) -> Tuple[TS, Dict[str, Tuple[str, int]], str, Tuple[Any, ...]]:
        view = self.store.view()
        ts = read_ts(view, self.store.listing())
        markers = marker_targets(view, ts, ms(ENV.clock))
        c = canon(self.v, ts, model, txs, ENV.clock, markers)
        return ts, markers, digest_of(c), c

    # ---- the initial state -----------------------------------------------
    def initial(self, seed: int) -> Dict[str, Any]:
        from datashard import create_table

        from .tables import schema

        v = self.v
        self.store.clear()
        ENV.reset(seed, "FROZEN" if v["clock"] == "FROZEN" else "TICK")
        t = create_table(self.store.loc, schema())
        model = Model()
        empty = TS()
        ts0 = read_ts(self.store.view(), self.store.listing())
        model, _ = model.advance(empty, ts0, ("create",))
        def set_props(model: Any) -> Any:
            from datashard import load_table

            mm = load_table(self.store.loc).metadata_manager
            before = read_ts(self.store.view(), self.store.listing())
            base = mm.refresh()
            new = copy.deepcopy(base)
            new.properties[RETENTION_PROP] = "2"
            new.properties[PREV_MAX_PROP] = "2"
            mm.commit(base, new)
            after = read_ts(self.store.view(), self.store.listing())
            model2, _ = model.advance(before, after, ("set_props",))
            return model2

        late = bool(v.get("props_late"))
        if v["props"] and not late:
            model = set_props(model)
        st = {"vid": v["name"], "sid": None, "depth": 0, "hist": [], "env": ENV.snapshot(), "model": model,
              "txs": [], "rowctr": 0, "digest": ""}
        for op in v["base"]:
            st = self.step(st, tuple(op), judge=False, in_place=True)["state"]
            st["depth"] = 0
        if v["props"] and late:
            ENV.restore(st["env"])
            st["model"] = set_props(st["model"])
            st["env"] = ENV.snapshot()
        st["hist"] = []
        st["base_hist"] = [op_label(o) for o in v["base"]]
        ENV.restore(st["env"])
        _ts, _mk, dg, _c = self.observe(st["model"], st["txs"])
        st["digest"] = dg
        return st

    # ---- one transition ------------------------------------------------------
    def step(self, st: Dict[str, Any], op: Op, judge: bool = True, in_place: bool = False,
             pre_obs: Any = None) -> Dict[str, Any]:
        """Apply `op` to state `st` (whose table must already be in the working location when
        `in_place`, else it is restored from st['sid']).  Returns {"T": Transition, "state": successor}."""
        if not in_place:
            self.store.restore(st["sid"])
        ENV.restore(st["env"])
        model: Model = st["model"]
        if pre_obs is None:
            pre_obs = self.observe(model, st["txs"])
        pre, markers_pre, pre_dg, _ = pre_obs
        T = Transition()
        T.v, T.op, T.label, T.hist = self.v, op, op_label(op), st["hist"] + [op_label(op)]
        T.pre, T.model_pre, T.txs_pre, T.clock_pre, T.markers_pre, T.pre_digest = pre, model, st["txs"], ENV.clock, markers_pre, pre_dg
        T.rep = self.rep
        ctx = Ctx(st["txs"], st["rowctr"])
        table = self.open()
        T.out = apply_op(table, op, pre, model, ctx)
        T.table, T.view = table, self.store.view()
        post = read_ts(T.view, self.store.listing())
        T.post = post
        T.model, T.new_ids = model.advance(pre, post, op)
        T.txs, T.clock = ctx.txs, ENV.clock
        markers_post = marker_targets(T.view, post, ms(ENV.clock))
        c = canon(self.v, post, T.model, ctx.txs, ENV.clock, markers_post)
        T.post_digest = digest_of(c)
        if judge and self.oracle is not None:
            self.oracle(T)
        nxt = {"vid": st["vid"], "sid": None, "depth": st["depth"] + 1, "hist": T.hist, "env": ENV.snapshot(),
               "model": T.model, "txs": ctx.txs, "rowctr": ctx.rowctr, "digest": T.post_digest}
        return {"T": T, "state": nxt, "canon": c, "post_obs": (post, markers_post, T.post_digest, c)}


def _summ(ts: TS, model: Model) -> Dict[str, Any]:
    order = {sid: i for i, sid in enumerate(_commit_order(ts, model))}
    return {"snapshots": [{"commit_rank": order.get(s.id), "ts": s.ts, "seq": s.seq, "op": s.op,
                           "files": len(s.data_files), "rows": len(s.rows)} for s in ts.snaps],
            "current": order.get(ts.current_id), "on_disk_files": len(ts.files)}


# ---------------------------------------------------------------------------
# worker entry points
# ---------------------------------------------------------------------------
def init_worker(payload: Tuple[Any, ...]) -> Dict[str, Any]:
    prop, tier, seed, v, shared = payload
    rep = Report(prop, tier, seed, "model_checking")
    with Session(v, None, rep, tag="init") as ses:
        st = ses.initial(seed)
        sid = os.path.join(shared, v["name"], "0-init")
        os.makedirs(os.path.dirname(sid), exist_ok=True)
        ses.store.save(sid)
        st["sid"] = sid
    return {"state": st}


def expand_worker(payload: Tuple[Any, ...]) -> Dict[str, Any]:
    prop, tier, seed, v, items, known, shared, tag, oracle_mod = payload
    rep = Report(prop, tier, seed, "model_checking")
    known = set(known)
    local: Set[str] = set()
    succ: List[Dict[str, Any]] = []
    n = 0
    with Session(v, oracle_mod, rep, tag=f"x{tag}") as ses:
        for st in items:
            ses.store.restore(st["sid"])
            ENV.restore(st["env"])
            pre_obs = ses.observe(st["model"], st["txs"])
            if pre_obs[2] != st["digest"]:
                raise HarnessError(f"stored state {st['sid']} of history {st['hist']} re-reads with another canonical "
                                   f"form ({pre_obs[2]} != {st['digest']}): copy/restore is not faithful")
            ops = enabled_ops(v, pre_obs[0], st["model"], st["txs"])
            rep.add("states_expanded")
            first = True
            for op in ops:
                r = ses.step(st, op, judge=True, in_place=first, pre_obs=pre_obs)
                first = False
                T: Transition = r["T"]
                rep.add("transitions")
                rep.add("traces_validated_against_impl")
                rep.cov.setdefault("transitions_by_op", {})
                rep.cov["transitions_by_op"][op_kind(op)] = rep.cov["transitions_by_op"].get(op_kind(op), 0) + 1
                if T.out["status"] == "error":
                    rep.cov.setdefault("op_errors", {})
                    ek = f"{op_kind(op)}:{(T.out['exc'] or '').split(':')[0]}"
                    rep.cov["op_errors"][ek] = rep.cov["op_errors"].get(ek, 0) + 1
                prune = False
                for key, detail, pr in T.findings:
                    rep.violation(key, detail)
                    prune = prune or pr
                if T.post.errors:
                    rep.add("states_broken_not_expanded")
                    continue
                if prune:
                    rep.add("states_pruned_after_violation")
                    continue
                dg = T.post_digest
                if v["dedupe"] and (dg in known or dg in local):
                    rep.add("successors_merged")
                    continue
                local.add(dg)
                nxt = r["state"]
                if nxt["depth"] < v["depth"]:
                    sid = os.path.join(shared, v["name"], f"{nxt['depth']}-{tag}-{n}")
                    n += 1
                    ses.store.save(sid)
                    nxt["sid"] = sid
                if len(rep.samples) < 2 and nxt["depth"] >= 3 and len(T.post.snaps) >= 2:
                    rep.sample({"variant": v["name"], "history": T.hist, "state": _summ(T.post, T.model)})
                succ.append(nxt)
    part = rep.part()
    part["succ"] = succ
    return part


def replay_worker(payload: Tuple[Any, ...]) -> Dict[str, Any]:
    """Witness validation: re-execute complete histories from the initial table (no stored
    directories involved) and compare the canonical form with the one the search stored."""
    prop, tier, seed, v, items = payload
    rep = Report(prop, tier, seed, "model_checking")
    with Session(v, None, rep, tag="rp") as ses:
        for hist_ops, want in items:
            st = ses.initial(seed)
            obs = None
            for op in hist_ops:
                r = ses.step(st, tuple(op), judge=False, in_place=True, pre_obs=obs)
                st, obs = r["state"], r["post_obs"]
            if st["digest"] != want:
                raise HarnessError(f"witness history {hist_ops!r} of variant {v['name']} replays to canonical state "
                                   f"{st['digest']}, the search stored {want}")
            rep.add("witness_histories_replayed_from_scratch")
    return rep.part()


def run_history(v: Dict[str, Any], hist_ops: Sequence[Op], oracle_mod: Optional[str], rep: Report,
                seed: int = 0) -> List[Transition]:
    """Sequential execution of one history with the oracle on every step (replay / by-hand form)."""
    out: List[Transition] = []
    with Session(v, oracle_mod, rep, tag="rh") as ses:
        st = ses.initial(seed)
        for op in hist_ops:
            r = ses.step(st, tuple(op), judge=True, in_place=True)
            out.append(r["T"])
            for key, detail, _pr in r["T"].findings:
                rep.violation(key, detail)
            st = r["state"]
    return out


def parse_op(label: str) -> Op:
    parts = label.split(":")
    return tuple(int(p) if p.lstrip("-").isdigit() else p for p in parts)


# ---------------------------------------------------------------------------
# the level-synchronous driver (parent process)
# ---------------------------------------------------------------------------
def _chunks(xs: List[Any], size: int) -> List[List[Any]]:
    return [xs[i:i + size] for i in range(0, len(xs), size)]


def search(prop: str, tier: str, seed: int, variants: List[Dict[str, Any]], oracle_mod: str, rep: Report,
           witness_stride: int = 1, workers: int = 16) -> Dict[str, Any]:
    """Run the BFS of every variant (all variants advance together, one worker pool per level).
    Merges counters / violations into `rep`; returns per-variant statistics incl. the digests per depth."""
    from .env import REAL_TIME as _REAL

    _t0 = _REAL()
    shared = os.path.join(scratch_root(), f"e2-{prop}-{os.getpid()}-{len(os.listdir(scratch_root()))}")
    os.makedirs(shared, exist_ok=True)
    if seed:
        rnd = random.Random(seed)
        for v in variants:
            rnd.shuffle(v["alphabet"])  # the seed only permutes enumeration order
    byname = {v["name"]: v for v in variants}
    if len(byname) != len(variants):
        raise HarnessError("variant names must be unique")
    visited: Dict[str, Dict[str, Tuple[int, List[str]]]] = {n: {} for n in byname}
    per_depth: Dict[str, List[int]] = {n: [] for n in byname}
    frontier: List[Dict[str, Any]] = []
    for res in pmap("dsmc.hist", "init_worker", [(prop, tier, seed, v, shared) for v in variants]):
        st = res["state"]
        visited[st["vid"]][st["digest"]] = (0, [])
        per_depth[st["vid"]].append(1)
        frontier.append(st)
    maxd = max(v["depth"] for v in variants)
    undeduped_nodes: Dict[str, int] = {n: 1 for n in byname}
    for d in range(maxd):
        todo = [s for s in frontier if s["depth"] < byname[s["vid"]]["depth"]]
        if not todo:
            break
        payloads = []
        total = len(todo)
        size = max(1, min(40, (total + workers * 3 - 1) // (workers * 3)))
        for name in byname:
            mine = [s for s in todo if s["vid"] == name]
            known = list(visited[name]) if byname[name]["dedupe"] else []
            for i, ch in enumerate(_chunks(mine, size)):
                payloads.append((prop, tier, seed, byname[name], ch, known, shared, f"{d}.{i}", oracle_mod))
        progress(f"{prop} depth {d}: {total} states in {len(payloads)} payloads t={_REAL() - _t0:.1f}")
        new: List[Dict[str, Any]] = []
        for part in pmap("dsmc.hist", "expand_worker", payloads, workers=workers):
            for s2 in part.pop("succ"):
                vis = visited[s2["vid"]]
                if byname[s2["vid"]]["dedupe"]:
                    if s2["digest"] in vis:
                        if s2["sid"]:
                            _rm(s2["sid"])
                        continue
                    vis[s2["digest"]] = (s2["depth"], s2["hist"])
                else:
                    vis.setdefault(s2["digest"], (s2["depth"], s2["hist"]))
                    undeduped_nodes[s2["vid"]] += 1
                new.append(s2)
            rep.merge(part)
        for s in todo:
            if s["sid"]:
                _rm(s["sid"])
        for name in byname:
            if d + 1 <= byname[name]["depth"]:
                per_depth[name].append(sum(1 for s in new if s["vid"] == name))
        frontier = new
    # witness validation: every `witness_stride`-th state's history is re-executed from the initial table
    items: Dict[str, List[Any]] = {n: [] for n in byname}
    for name, vis in visited.items():
        for i, (dg, (_dep, hist)) in enumerate(sorted(vis.items(), key=lambda kv: (kv[1][0], kv[1][1]))):
            if i % max(1, witness_stride) == 0:
                items[name].append(([parse_op(x) for x in hist], dg))
    payloads = []
    for name, its in items.items():
        for ch in _chunks(its, max(1, min(60, (len(its) + workers - 1) // workers))):
            payloads.append((prop, tier, seed, byname[name], ch))
    progress(f"{prop} witness replay: {sum(len(p[4]) for p in payloads)} histories in {len(payloads)} payloads t={_REAL() - _t0:.1f}")
    if payloads:
        for part in pmap("dsmc.hist", "replay_worker", payloads, workers=workers):
            rep.merge(part)
    progress(f"{prop} search done t={_REAL() - _t0:.1f}")
    shutil.rmtree(shared, ignore_errors=True)
    return {"visited": visited, "per_depth": per_depth, "undeduped_nodes": undeduped_nodes}


def _rm(sid: str) -> None:
    if os.path.isdir(sid):
        shutil.rmtree(sid, ignore_errors=True)
    else:
        try:
            os.remove(sid)
        except OSError:
            pass


def differential(prop: str, tier: str, seed: int, v: Dict[str, Any], depth: int, oracle_mod: str,
                 deduped_visited: Dict[str, Tuple[int, List[str]]], deduped_keys: Set[str],
                 rep: Report) -> Dict[str, Any]:
    """Honesty check of the abstraction: explore depth <= `depth` of variant `v` WITHOUT merging
    (every history is its own node) and require (1) the same set of canonical states and (2) the
    same set of violation keys as the deduplicated search restricted to that depth."""
    v2 = dict(v, name=v["name"] + "-undeduped", dedupe=False, depth=depth)
    sub = Report(prop, tier, seed, "model_checking")
    res = search(prop, tier, seed, [v2], oracle_mod, sub, witness_stride=10 ** 9)
    got = set(res["visited"][v2["name"]])
    want = {dg for dg, (dep, _h) in deduped_visited.items() if dep <= depth}
    if got != want:
        only_u = [res["visited"][v2["name"]][g][1] for g in sorted(got - want)][:3]
        only_d = [deduped_visited[g][1] for g in sorted(want - got)][:3]
        raise HarnessError(f"differential check of the canonical form failed for {v['name']} at depth {depth}: "
                           f"{len(got - want)} canonical states only without dedupe (e.g. {only_u}), "
                           f"{len(want - got)} only with dedupe (e.g. {only_d})")
    ukeys = set(sub.violations)
    missing = ukeys - deduped_keys
    if missing:
        raise HarnessError(f"differential check: violation keys found only without dedupe: {sorted(missing)[:5]}")
    rep.add("differential_histories_without_dedupe", res["undeduped_nodes"][v2["name"]])
    rep.add("differential_canonical_states_compared", len(got))
    rep.add("differential_transitions", sub.cov.get("transitions", 0))
    return {"nodes": res["undeduped_nodes"][v2["name"]], "states": len(got), "violation_keys": sorted(ukeys)}
