#!/opt/veriftools/pyvenv/bin/python
"""Validate MANIFEST.json and evidence/*.json against the given schemas."""
import glob, json, sys, jsonschema
ok = True
ms = json.load(open('/root/.vp/MANIFEST.schema.json'))
es = json.load(open('/root/.vp/EVIDENCE.schema.json'))
try:
    jsonschema.validate(json.load(open('/verif/MANIFEST.json')), ms); print("MANIFEST ok")
except Exception as e:
    ok = False; print("MANIFEST INVALID", e)
for f in sorted(glob.glob('/verif/evidence/*.json')):
    try:
        jsonschema.validate(json.load(open(f)), es); print(f, "ok")
    except Exception as e:
        ok = False; print(f, "INVALID", str(e)[:300])
sys.exit(0 if ok else 1)
