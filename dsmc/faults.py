"""Exception-fault injection at the storage seams (engine E3a, DESIGN.md 2.4).

One small object, `FaultPlan`, is both an `ENV.hooks` listener (local backend:
every os-level call of `dsmc.localfs`) and a `FakeS3.gates` gate (S3 backend:
every request).  It numbers the storage-level calls of an operation and, when
given a position, raises *before the effect* of exactly that call.

    rec = FaultPlan()                          # 1. recording run
    with rec.local(root):                      #    (or rec.s3(world.s3, "tbl"))
        op()
    for c in rec.calls:                        # 2. one faulted run per call
        restore_template()
        plan = FaultPlan(at=c.key, exc=os_error(), persistent=False)
        with plan.local(root):
            try: op()
            except Exception: ...
        if not plan.fired: raise HarnessError("fault position not reached")

A fault position is `Call.key = (sig, occurrence)`: the `occurrence`-th call
with signature `sig = (where, fn, table-relative path)`.  Unlike a global call
index this stays well defined when the operation uses worker threads
(`scan(parallel=2)`); `Call.idx` is the global index of the recording run and
`at=` accepts either.  `persistent=True` models "every attempt of that call
fails": once fired, every later call with the same signature fails too (this
is what outlives `with_s3_retry`).  `exc` is an exception instance or a
`callable(Call) -> exception`; use `os_error()`, `s3_transient()`,
`s3_permanent()`.  `select=` restricts which calls are numbered/faulted.
"""
from __future__ import annotations

import contextlib
import errno
import os
import threading
from typing import Any, Callable, Dict, Iterator, List, NamedTuple, Optional, Tuple, Union

from .env import ENV

Sig = Tuple[str, str, str]
Key = Tuple[Sig, int]


class Call(NamedTuple):
    idx: int      # global index in this run
    where: str    # local: datashard module of the seam ("storage_backend", ...); S3: "s3"
    fn: str       # local: exists/open/walk/getmtime/remove/...; S3: GET/HEAD/PUT/DELETE/LIST
    path: str     # table-relative path ("//<abs>" when outside the table)
    cls: str      # path_class(path)
    kind: Optional[str]  # r | w | l | None (as reported by the seam)
    key: Key      # ((where, fn, path), occurrence) - the fault position

    def label(self) -> str:
        return f"#{self.idx} {self.where}.{self.fn} {self.path} [{self.cls}] occ={self.key[1]}"


def path_class(rel: str) -> str:
    """Coarse, stable class of a table-relative path (for violation keys)."""
    rel = rel.strip("/")
    b = rel.rsplit("/", 1)[-1]
    if b.startswith(".tmp."):
        return "tmp"
    if rel == "metadata.version-hint.text":
        return "pointer"
    if rel.startswith("metadata/inflight"):
        return "marker" if b.endswith(".inflight") else "inflight_dir"
    if rel.startswith("metadata/manifests"):
        if b.startswith("manifest_list_"):
            return "manifest_list"
        if b.startswith("manifest_"):
            return "manifest"
        return "manifests_dir"
    if rel.startswith("metadata"):
        return "metadata" if b.endswith(".metadata.json") else "metadata_dir"
    if rel.startswith("data"):
        return "data" if "." in b else "data_dir"
    if rel.startswith(".locks"):
        return "lock"
    return "root" if rel == "" else "other"


def os_error(code: int = errno.EIO) -> Callable[[Call], BaseException]:
    return lambda c: OSError(code, f"injected fault at {c.where}.{c.fn}", c.path)


def _client_error(code: str, status: int) -> Callable[[Call], BaseException]:
    def mk(c: Call) -> BaseException:
        from botocore.exceptions import ClientError

        return ClientError({"Error": {"Code": code, "Message": f"injected {code}"},
                            "ResponseMetadata": {"HTTPStatusCode": status}}, c.fn)

    return mk


def s3_transient(code: str = "InternalError", status: int = 500) -> Callable[[Call], BaseException]:
    return _client_error(code, status)


def s3_permanent(code: str = "AccessDenied", status: int = 403) -> Callable[[Call], BaseException]:
    return _client_error(code, status)


class FaultPlan:
    def __init__(self, at: Union[None, int, Key] = None,
                 exc: Union[None, BaseException, Callable[[Call], BaseException]] = None,
                 persistent: bool = False, select: Optional[Callable[[Call], bool]] = None):
        if at is not None and not isinstance(at, int):
            at = (tuple(at[0]), int(at[1]))  # tolerate the list form of a key that went through JSON
        self.at, self.exc, self.persistent, self.select = at, exc, persistent, select
        self.calls: List[Call] = []      # every numbered call of this run, in global order
        self.fired: List[Call] = []      # calls at which the fault was raised
        self._occ: Dict[Sig, int] = {}
        self._bad_sig: Optional[Sig] = None
        self._root: Optional[str] = None
        self._prefix = ""
        self._mu = threading.Lock()

    # ---- attaching ---------------------------------------------------------
    @contextlib.contextmanager
    def local(self, root: str) -> Iterator["FaultPlan"]:
        """Number / fault the os-level calls below table root `root`."""
        from .localfs import install_local_seams

        install_local_seams()
        self._root = os.path.realpath(root)
        ENV.hooks.append(self)
        try:
            yield self
        finally:
            ENV.hooks.remove(self)

    @contextlib.contextmanager
    def s3(self, fake: Any, prefix: str = "") -> Iterator["FaultPlan"]:
        """Number / fault the requests `fake` (a FakeS3) receives; paths are relative to `prefix`."""
        self._prefix = prefix.strip("/")
        fake.gates.append(self.gate)
        try:
            yield self
        finally:
            fake.gates.remove(self.gate)

    # ---- the two seam protocols --------------------------------------------------
    def before(self, ev: Any) -> None:  # ENV.hooks listener
        self._point(ev.mod, ev.fn, self._rel(ev.path), ev.kind)

    def after(self, ev: Any, res: Any, exc: Any) -> None:
        pass

    def gate(self, req: Any) -> None:  # FakeS3 gate
        k = req.key
        p = self._prefix
        if p and (k == p or k.startswith(p + "/")):
            k = k[len(p) + 1:]
        elif p:
            k = "//" + k
        self._point("s3", req.op, k, req.kind)

    # ---- core ------------------------------------------------------------------------
    def _rel(self, p: Optional[str]) -> str:
        if p is None:
            return "?"
        r = self._root
        if r is None:
            return p
        for q in (p, os.path.realpath(p)):
            if q == r:
                return ""
            if q.startswith(r + os.sep):
                return q[len(r) + 1:]
        return "//" + p

    def _point(self, where: str, fn: str, rel: str, kind: Optional[str]) -> None:
        with self._mu:
            sig = (where, fn, rel)
            occ = self._occ.get(sig, 0)
            c = Call(len(self.calls), where, fn, rel, path_class(rel), kind, (sig, occ))
            if self.select is not None and not self.select(c):
                return
            self._occ[sig] = occ + 1
            self.calls.append(c)
            if not self.fired:  # the planted position (reached at most once per run)
                if self.at is None or not (c.idx == self.at if isinstance(self.at, int) else c.key == self.at):
                    return
                self._bad_sig = sig
            elif not (self.persistent and sig == self._bad_sig):  # persistent: every later attempt of that call
                return
            self.fired.append(c)
            exc = self.exc(c) if callable(self.exc) else (self.exc or OSError(errno.EIO, "injected fault"))
        raise exc
