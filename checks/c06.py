"""C06 - garbage collection is safe against concurrently committing transactions.

E1: one collector (grace 1 h) interleaved with a transaction whose data file
and marker are already two hours old when it commits (or rolls back), with a
second committer forcing a conflict retry, and with a transaction that writes
its files during the run.  Oracle: after every complete interleaving, every
file of every snapshot in the final metadata exists and parses (independent
reader), an acknowledged transaction's rows are present, and the collector did
not delete a file registered by a still-live transaction.
"""
from __future__ import annotations

import os
from typing import Any, Dict, List, Tuple

from dsmc.commitworld import TableWorld, outcome_of
from dsmc.env import ENV
from dsmc.reader import canon_row
from dsmc.report import HarnessError, Report, pmap
from dsmc.sched import DONE, Execution, Explorer
from dsmc.tables import row, schema

GRACE_MS = 3600_000
OLD_S = 10800.0  # 3 h: beyond the 1 h grace period, well inside the 24 h in-flight timeout
LAG_S = 600.0


def build_template(w: TableWorld) -> None:
    from datashard import create_table

    t = create_table(w.location, schema())
    t.append_records([row(0)])
    t.append_records([row(1)])


class C06World(TableWorld):
    def __init__(self, backend: str, variant: str, rep: Report, cfg: Dict[str, Any]):
        self.variant = variant
        n = {"commit_old": 2, "rollback_old": 2, "append_fresh": 2, "commit_old+committer": 3,
             "commit_old+fresh": 3, "two_old": 3, "append_fresh_2gc": 2, "append_fresh_2collectors": 3,
             "commit_old+envcommit": 3, "append_fresh+envgc": 3, "sibling_rollback_then_commit_old": 2,
             "sibling_commit_then_commit_old": 2}[variant]
        # the second collector of the two-collector variant is the run "hours later": it starts while the writer is
        # stalled or after the writer has finished (a collector that starts earlier is G)
        self.initially_frozen = ("H",) if variant == "append_fresh_2collectors" else ()
        self.max_pauses = cfg.get("max_pauses", 0)
        super().__init__(backend, "separate", n, build_template, name="c06")
        self.rep, self.cfg = rep, cfg
        self.outcomes: Dict[Any, int] = {}
        self.txs: List[Any] = []
        self.tx_files: List[str] = []

    def _age(self, rel: str) -> None:
        if self.backend == "local":
            p = os.path.join(self.root, rel)
            st = os.stat(p)
            os.utime(p, (st.st_mtime - OLD_S, st.st_mtime - OLD_S))
            self.adapter._set(rel, (self.adapter.shadow[rel][0], round(st.st_mtime - OLD_S, 6)))
        else:
            self.s3w.s3.age(f"{self.location}/{rel}", OLD_S)

    def reset(self) -> None:
        super().reset()
        self.txs, self.tx_files = [], []
        self.gc_open, self.gc_runs = 0, []
        n_old = {"commit_old": 1, "rollback_old": 1, "commit_old+committer": 1, "commit_old+fresh": 1, "two_old": 2,
                 "commit_old+envcommit": 1, "sibling_rollback_then_commit_old": 1,
                 "sibling_commit_then_commit_old": 1}.get(self.variant, 0)
        for k in range(n_old):
            tx = self.handle(1 + k).new_transaction().begin()
            tx.append_data([row(50 + k)])
            self.txs.append(tx)
            # the transaction's data file and every marker on storage (read from storage, not from the
            # transaction object, whose private attributes are the library's business)
            markers = [p for p in self.view.list() if p.startswith("metadata/inflight/")]
            for f in list(tx._written_files) + markers:
                self._age(f)
            self.tx_files.append(tx._written_files[0])
        self.env_commits = 0
        self.env_gcs = 0
        self.lags = 0

    def _collect(self, handle):
        """One collection run; its virtual start/end instants are recorded: the statement only speaks about runs
        shorter than the grace period."""
        t0 = ENV.clock
        self.gc_open += 1
        try:
            return handle.garbage_collect(GRACE_MS)
        finally:
            self.gc_open -= 1
            self.gc_runs.append((t0, ENV.clock))

    def actors(self):
        g = self.handle(0)
        if self.variant == "append_fresh_2collectors":
            g2 = self.handle(2)
            out = [("G", lambda: self._collect(g)), ("H", lambda: self._collect(g2))]
        elif self.variant == "append_fresh_2gc":
            # two collection runs during one transaction (the second one hours later, see the pause deviation)
            out = [("G", lambda: (self._collect(g), self._collect(g)))]
        else:
            out = [("G", lambda: self._collect(g))]
        v = self.variant
        if v in ("commit_old", "commit_old+committer", "commit_old+fresh", "two_old", "commit_old+envcommit"):
            out.append(("T", self.txs[0].commit))
        if v.startswith("sibling_"):
            # a second transaction opened from the SAME table handle finishes (rolls back / commits) while the first,
            # older one is still open; then the first commits
            h1 = self.handle(1)
            tx0 = self.txs[0]

            def body():
                tx2 = h1.new_transaction().begin()
                tx2.append_data([row(80)])
                if v.startswith("sibling_rollback"):
                    tx2.rollback()
                else:
                    tx2.commit()
                return tx0.commit()

            out.append(("T", body))
        if v == "rollback_old":
            out.append(("T", self.txs[0].rollback))
        if v == "two_old":
            out.append(("U", self.txs[1].commit))
        if v in ("append_fresh", "append_fresh_2gc", "append_fresh_2collectors", "append_fresh+envgc"):
            h = self.handle(1)
            out.append(("T", lambda: h.append_records([row(60)])))
        if v in ("commit_old+committer", "commit_old+fresh"):
            h2 = self.handle(2)
            out.append(("C", lambda: h2.append_records([row(70)])))
        return out

    # ---- deviation: the transaction's process stalls for two hours (longer than the grace period) ----------
    def extra_options(self, ex: Execution):
        opts = []
        for a in ex.actors:
            if a.name == "H" and a.frozen and "H" in self.initially_frozen:
                t = [b for b in ex.actors if b.name == "T"][0]
                if t.frozen or t.state == DONE:
                    opts.append(("start", "H"))
            if a.name == "T" and self.variant == "commit_old+envcommit" and self.env_commits == 0 and a.state != DONE \
                    and self._metadata_lock_free():
                # environment event: another writer's whole commit lands here, as one atomic step (so that the
                # transaction loses its race and retries, without a third actor's interleavings)
                opts.append(("other-writer-commits", "C"))
            if a.name == "T" and self.variant == "append_fresh+envgc" and self.env_gcs == 0 and a.state != DONE \
                    and a.steps > 0 and not a.frozen and self.gc_open == 0:
                # environment event: a whole collection run by another process, as one atomic step
                opts.append(("other-process-collects", "E"))
            if a.name == "G" and self.cfg.get("max_lags", 0) > self.lags and self.gc_open > 0 and a.state != DONE:
                # the collection run is slow: ten minutes (much less than the grace period) pass in the middle of it
                opts.append(("run-takes-10-more-minutes", "G"))
            if a.name != "T":
                continue
            if a.frozen:
                opts.append(("resume", "T"))
            elif a.state != "done" and ex.jumps < self.max_pauses and a.steps > 0 and self.gc_open == 0:
                # never while a collection run is in progress: that run would last longer than the grace
                # period, which the statement excludes
                opts.append(("stall+3h", "T"))
        return opts

    def _metadata_lock_free(self) -> bool:
        """Another writer can only commit while nobody holds the table's metadata lock."""
        if self.backend == "local":
            return self.adapter.flock_holder is None
        return f"{self.location}/.locks/metadata.lock" not in self.s3w.s3.objs

    def apply_extra(self, ex: Execution, opt) -> None:
        kind, name = opt
        if kind == "run-takes-10-more-minutes":
            self.lags += 1
            ENV.clock = round(ENV.clock + LAG_S, 6)
            return
        if kind == "other-process-collects":
            self.env_gcs += 1
            ENV.set_actor("envG")
            try:
                self.handle(2).garbage_collect(GRACE_MS)
            except HarnessError:
                raise
            except Exception:  # noqa - a collection that aborts is an outcome, the final state is judged
                self.rep.add("environment_collections_that_raised")
            finally:
                ENV.set_actor("setup")
            return
        if kind == "other-writer-commits":
            self.env_commits += 1
            ENV.set_actor("envC")
            try:
                if not self.handle(2).append_records([row(70)]):
                    raise HarnessError("the environment's commit failed")
            finally:
                ENV.set_actor("setup")
            return
        for a in ex.actors:
            if a.name.split(".", 1)[0] == name:
                a.frozen = kind not in ("resume", "start")
        if kind not in ("resume", "start"):
            ENV.clock = round(ENV.clock + OLD_S, 6)
            ex.jumps += 1

    def check(self, ex: Execution) -> None:
        acts = {a.name: a for a in ex.actors}
        outcome = {n: outcome_of(a) for n, a in acts.items() if "." not in n}
        problems: List[str] = []
        if any((t1 - t0) * 1000 >= GRACE_MS for t0, t1 in self.gc_runs):
            raise HarnessError(f"a collection run lasted longer than the grace period: {self.gc_runs}")
        if ex.deadlock:
            problems.append("deadlock")
        st = self.state()
        if st.errors:
            problems.append("file of a retained snapshot missing/unreadable after the run: " + "; ".join(st.errors[:2]))
        else:
            cur = set(st.current_rows())
            want = {"T": [50], "U": [51], "C": [70]}
            if self.variant == "sibling_commit_then_commit_old":
                want["T"] = [50, 80]
            if self.env_commits and canon_row(row(70)) not in cur:
                problems.append("the environment's acknowledged commit is missing from the current snapshot")
            if self.variant in ("append_fresh", "append_fresh_2gc", "append_fresh_2collectors", "append_fresh+envgc"):
                want["T"] = [60]
            if self.variant == "rollback_old":
                want.pop("T")
            for n, rows in want.items():
                if n in outcome and outcome[n] == ("ok", True):
                    for r in rows:
                        if canon_row(row(r)) not in cur:
                            problems.append(f"{n} acknowledged but row {r} missing from the current snapshot")
        g = outcome.get("G")
        if g and g[0] == "raise":
            self.rep.add("gc_raised")
        okey = tuple(sorted((k, (v[0], repr(v[1]))) for k, v in outcome.items()))
        self.outcomes[okey] = self.outcomes.get(okey, 0) + 1
        self.rep.nontrivial((self.cfg["id"], okey))
        if problems:
            self.rep.violation(
                {"backend": self.backend, "variant": self.variant, "problem": problems[0].split(":")[0][:70]},
                {"config": self.cfg, "choices": ex.choices, "schedule": ex.trace, "problems": problems,
                 "shared_keys": sorted(ex.ex.shared_keys), "shared_prefixes": sorted(ex.ex.shared_prefixes),
                 "outcomes": {k: list(map(repr, v)) for k, v in outcome.items()}})


def run_config(cfg: Dict[str, Any]) -> Dict[str, Any]:
    rep = Report("C06", cfg["tier"], cfg["seed"], "model_checking")
    w = C06World(cfg["backend"], cfg["variant"], rep, cfg)
    try:
        exp = Explorer(w, bound=cfg.get("bound"), seed=cfg["seed"], clock_mode="TICK", horizon=4000,
                       max_exec=cfg.get("max_exec"), has_extra=bool(cfg.get("max_pauses") or cfg.get("env_commit")))
        exp.on_complete = w.check
        stats = exp.explore()
        exp.visited.clear()
        sample = exp.execute([]) if cfg.get("sample") else None
    finally:
        w.close()
    rep.add("states", stats["states"])
    rep.add("transitions", stats["transitions"])
    rep.add("executions", stats["executions"])
    rep.add("traces_validated_against_impl", stats["complete"])
    rep.add("determinism_replays", stats["determinism_replays"])
    rep.add("configs")
    rep.setmax("max_depth", stats["max_depth"])
    rep.cov.setdefault("per_config", {})[cfg["id"]] = stats["executions"]
    rep.cov.setdefault("distinct_outcomes", {})[cfg["id"]] = len(w.outcomes)
    rep.cov.setdefault("shared_prefixes", [])
    for p in stats["shared_prefixes"]:
        if p not in rep.cov["shared_prefixes"]:
            rep.cov["shared_prefixes"].append(p)
    if stats["capped"] or exp.cap_hit:
        rep.caps.append(f"{cfg['id']}: cap hit")
    if sample is not None:
        rep.sample({"config": cfg["id"], "default_schedule": sample.trace[:80]})
    return rep.part()


def configs(tier: str, seed: int) -> List[Dict[str, Any]]:
    out = []

    def add(backend, variant, bound=None, sample=False, max_pauses=0, max_lags=0):
        out.append({"id": f"{backend}/{variant}" + (f"/stall{max_pauses}" if max_pauses else "")
                    + (f"/lag{max_lags}" if max_lags else "")
                    + (f"/b{bound}" if bound is not None else ""), "backend": backend, "max_lags": max_lags,
                    "variant": variant, "bound": bound, "tier": tier, "seed": seed, "sample": sample,
                    "max_pauses": max_pauses, "env_commit": variant.endswith("+envcommit") or variant.endswith("+envgc") or bool(max_lags),
                    # thorough: every configuration stops after 12 000 executions (reported as a cap in the evidence)
                    "max_exec": 12000 if tier != "quick" else None})

    for b in ("local", "s3"):
        add(b, "commit_old", sample=(b == "s3"))
        add(b, "rollback_old")
        if tier != "quick" or b == "s3":
            add(b, "append_fresh")
        # the committing process stalls for 3 h (> grace) at any point; the collector runs during the stall
        add(b, "commit_old", bound=0 if tier == "quick" else 2, max_pauses=1)
        if tier != "quick":
            add(b, "append_fresh_2gc", bound=2, max_pauses=1)
        # two collection runs (separate collector processes) around a stalled writer; a conflicting committer + stall
        if tier != "quick":
            add(b, "append_fresh_2collectors", bound=1, max_pauses=1)
            add(b, "commit_old+envcommit")
        # the transaction loses its first commit attempt against another writer (atomic environment commit) and retries
        add(b, "commit_old+envcommit", bound=1)
        # two transactions opened from one table handle: the younger one finishes first
        add(b, "sibling_rollback_then_commit_old")
        if tier != "quick" or b == "local":
            add(b, "sibling_commit_then_commit_old", bound=1 if tier == "quick" else 2)
        # a slow collection run (10 min << grace) with a whole append landing in the middle of it
        add(b, "append_fresh", bound=1, max_lags=1)
        # a whole collection run of another process lands atomically at any point of the append; the writer may stall
        # for 3 h afterwards and the explored collector then runs
        add(b, "append_fresh+envgc", bound=1, max_pauses=1)
        if tier != "quick":
            add(b, "commit_old+committer", bound=0, max_pauses=1)
        if tier == "quick":
            add(b, "commit_old+committer", bound=1)
        else:
            add(b, "commit_old+committer", bound=2)
            add(b, "two_old", bound=2)
    return out


def run(tier: str, seed: int) -> Report:
    rep = Report("C06", tier, seed, "model_checking")
    for part in pmap("checks.c06", "run_config", configs(tier, seed)):
        rep.merge(part)
    rep.cov["exhaustive"] = not rep.caps
    rep.cov["rule"] = ("one execution = one complete interleaving of collector and transaction(s) on the real code; "
                       "non-trivial = distinct (config, per-actor outcome)")
    rep.assumptions += [
        "grace period 1 h; the virtual duration of a run is milliseconds, so the proviso 'grace exceeds the run' holds",
        "the transaction's data file and marker are aged 3 h before the exploration starts (file ages on the far side of grace); "
        "the append_fresh variant covers the near side",
        "2-actor configurations unbounded; 3-actor configurations under the preemption bound in the config id",
        "stall deviation: the transaction's process is frozen and the clock jumps 3 h (the statement bounds the duration of the "
        "collection run by the grace period, not the transaction's); configurations with it are preemption-bounded",
    ]
    return rep


def replay(case: Dict[str, Any]) -> Dict[str, Any]:
    d = case["detail"]
    cfg = d["config"]
    rep = Report("C06", cfg["tier"], cfg["seed"], "model_checking")
    w = C06World(cfg["backend"], cfg["variant"], rep, cfg)
    try:
        exp = Explorer(w, seed=cfg["seed"], clock_mode="TICK", has_extra=bool(cfg.get("max_pauses") or cfg.get("env_commit")))
        exp.shared_keys, exp.shared_prefixes = set(d["shared_keys"]), set(d["shared_prefixes"])
        ex = exp.execute(d["choices"])
        w.check(ex)
    finally:
        w.close()
    return {"violated": bool(rep.violations), "schedule": ex.trace, "violations": list(rep.violations.values())}
