"""C11 - appends are exact or traceless; an accepted append never breaks later scans.

Technique: exhaustive small-scope enumeration (no sampling) of

  records space   column type x required/optional x api x two-append history
                  x { S1: EVERY supplied value x schema argument in {omitted, identical}
                      S2: one representative per value class x EVERY other schema-argument
                          variant (8 field variants x {same, different} schema_id) }
  files space     column type x required/optional x file api x history x pre-built file
                  variant (content variant x format label)

against an independent reference written in plain Python (`canon`: what the declared
column type's representation of a supplied Python value is, or "cannot represent"),
an independent reader (dsmc.reader, no datashard import) for the raise => unchanged
half, and a plain-Python filter evaluator for the "later scans still work and do not
mis-filter" half.

Tables have two columns: `k` (long, required, the row identity) and `v` (the column
under test).  Every history has two appends: a plain base append B (schema omitted)
and the append under test T, in both orders and with T / the later append issued
through the creating handle (warm Arrow-schema cache) or a fresh load_table handle.
"""
from __future__ import annotations

import datetime as _dt
import decimal
import math
import os
import shutil
import struct
from typing import Any, Callable, Dict, List, Optional, Tuple

from dsmc import reader
from dsmc.env import ENV, REAL_DATETIME
from dsmc.report import HarnessError, Report, pmap
from dsmc.tables import fresh_dir, use_local

DT = REAL_DATETIME
DATE = _dt.date
UTC = _dt.timezone.utc
EPOCH_D = DATE(1970, 1, 1)
EPOCH_TS = DT(1970, 1, 1)

ALL_TYPES = ["int", "long", "double", "string", "date", "boolean", "float", "timestamp", "binary"]
QUICK_TYPES = ALL_TYPES[:5]
ALT_TYPE = {"boolean": "int", "int": "long", "long": "int", "float": "double", "double": "float",
            "string": "binary", "binary": "string", "date": "timestamp", "timestamp": "date"}

# (A, B, G): two base values and the value of the "good" row that travels with the row under test
PLAIN: Dict[str, Tuple[Any, Any, Any]] = {
    "boolean": (True, False, True),
    "int": (5, 7, 6),
    "long": (5, 7, 6),
    "float": (0.5, 2.5, 1.25),
    "double": (0.5, 2.5, 1.25),
    "string": ("a", "c", "b"),
    "date": (DATE(2020, 1, 1), DATE(2020, 1, 3), DATE(2020, 1, 2)),
    "timestamp": (DT(2020, 1, 1, 1, 1, 1), DT(2020, 1, 3, 3, 3, 3), DT(2020, 1, 2, 2, 2, 2)),
    "binary": (b"a", b"c", b"b"),
}

MISSING = ("<missing key>",)   # sentinel: the record has no 'v' key
EXTRA = ("<extra key>",)       # sentinel: the record has a plain 'v' plus an unknown field 'zz'
EMPTY = ("<empty batch>",)     # sentinel: the batch under test has no records at all
EXTRA_NOV = ("<extra key instead of v>",)  # sentinel: the record omits 'v' and carries an unknown field 'zz' (a misspelt name)

# name, value class, supplied value, representative of its class (used in S2)
_VALUES: List[Tuple[str, str, Any, bool]] = [
    ("none", "none", None, True),
    ("missing_key", "missing_key", MISSING, True),
    ("extra_record_field", "extra_record_field", EXTRA, True),
    ("extra_field_instead_of_v", "extra_record_field_v_missing", EXTRA_NOV, True),
    ("empty_batch", "empty_batch", EMPTY, True),
    ("bool_true", "bool", True, True),
    ("int_1", "int_small", 1, False),
    ("i32_max", "int_i32_edge_in", 2**31 - 1, False),
    ("i32_min", "int_i32_edge_in", -2**31, False),
    ("i32_over", "int_i32_edge_out", 2**31, True),
    ("i32_under", "int_i32_edge_out", -2**31 - 1, False),
    ("i64_max", "int_i64_edge_in", 2**63 - 1, False),
    ("i64_min", "int_i64_edge_in", -2**63, False),
    ("i64_over", "int_i64_edge_out", 2**63, False),
    ("i64_under", "int_i64_edge_out", -2**63 - 1, False),
    ("int_2p53p1", "int_gt_2p53", 2**53 + 1, True),
    ("int_2p24p1", "int_gt_2p24", 16777217, False),
    ("float_1_0", "integral_float", 1.0, True),
    ("float_2p31", "integral_float", 2147483648.0, False),
    ("float_2p53", "integral_float", 9007199254740992.0, False),
    ("float_1_5", "fractional_float", 1.5, True),
    ("float_m1_5", "fractional_float", -1.5, False),
    ("float_0_1", "fractional_float", 0.1, False),
    ("float_i32max_5", "fractional_float", 2147483647.5, False),
    ("neg_zero", "neg_zero", -0.0, False),
    ("float_1e19", "huge_float", 1e19, False),
    ("float_1e300", "huge_float", 1e300, False),
    ("float_1e39", "float32_overflow", 1e39, False),
    ("float_1em50", "fractional_float", 1e-50, False),
    ("float_2p24p1", "float_gt_2p24", 16777217.0, False),
    ("nan", "nan", float("nan"), True),
    ("pos_inf", "inf", float("inf"), False),
    ("neg_inf", "inf", float("-inf"), False),
    ("str_x", "str", "x", True),
    ("str_digit", "str", "1", False),
    ("str_empty", "str_empty", "", False),
    ("str_unicode", "str_unicode", "é中\U0001f600", False),
    ("str_nul", "str_unicode", "a\x00b", False),
    ("str_surrogate", "str_surrogate", "\ud800", False),
    ("str_iso_date", "str_iso_date", "2020-01-02", False),
    ("str_long_40", "str_long", "order-2024-europe-" + "0" * 21 + "7", True),
    ("str_long_300", "str_long", "z" * 299 + "y", False),
    ("bytes_ab", "bytes", b"ab", True),
    ("bytes_nonutf8", "bytes_nonutf8", b"\xff\xfe", False),
    ("bytes_empty", "bytes", b"", False),
    ("date_2020", "date", DATE(2020, 1, 2), True),
    ("date_min", "date_edge", DATE(1, 1, 1), False),
    ("date_max", "date_edge", DATE(9999, 12, 31), False),
    ("dt_naive", "datetime", DT(2020, 1, 2, 3, 4, 5, 123456), True),
    ("dt_midnight", "datetime", DT(2020, 1, 2), False),
    ("dt_aware_utc", "datetime_aware", DT(2020, 1, 2, 3, 4, 5, tzinfo=UTC), False),
    ("dt_aware_m5", "datetime_aware", DT(2020, 1, 2, 23, 0, tzinfo=_dt.timezone(_dt.timedelta(hours=-5))), False),
    ("dt_min", "datetime_edge", DT(1, 1, 1), False),
    ("dt_max", "datetime_edge", DT(9999, 12, 31, 23, 59, 59, 999999), False),
    ("decimal_1_5", "fractional_decimal", decimal.Decimal("1.5"), False),
    ("list_1", "list", [1], False),
    ("dict_a", "dict", {"a": 1}, False),
]
VALUE_BY_NAME = {n: (c, v, r) for n, c, v, r in _VALUES}
QUICK_S2_CLASSES = ("plain", "none", "fractional_float")
QUICK_FULL_S1_HISTORIES = ("base_test_same_handle", "test_base_fresh_handle")

FIELD_VARIANTS = ["identical", "reordered", "renumbered_swapped", "renumbered_shifted", "type_changed",
                  "nullability_flipped", "extra_field", "missing_field"]
HISTORIES = ["base_test_same_handle", "base_test_fresh_handle", "test_base_same_handle", "test_base_fresh_handle"]
RECORD_APIS = ["append_records", "tx_append_data"]
FILE_APIS = ["append_files", "table_append_data"]
# (content variant, format label)
FILE_VARIANTS: List[Tuple[str, str]] = [
    ("matching", "parquet"), ("matching_relpath", "parquet"), ("reordered_columns", "parquet"),
    ("different_type", "parquet"), ("nullability_flipped", "parquet"), ("extra_column", "parquet"),
    ("missing_column", "parquet"), ("unreadable_bytes", "parquet"), ("empty_file", "parquet"),
    ("missing_file", "parquet"),
    ("matching", "avro"), ("reordered_columns", "avro"), ("unreadable_bytes", "orc"),
]


# ---------------------------------------------------------------------------
# independent reference: representation of a supplied value under a declared type
# ---------------------------------------------------------------------------
def f32(x: float) -> float:
    if x != x or x in (math.inf, -math.inf):
        return x
    try:
        return struct.unpack("f", struct.pack("f", x))[0]
    except OverflowError:  # IEEE round-to-nearest of a too-large finite double
        return math.copysign(math.inf, x)


def _exact_int(s: Any) -> Optional[int]:
    if isinstance(s, int):  # bool included: True == 1
        return int(s)
    if isinstance(s, float):
        return int(s) if math.isfinite(s) and s == int(s) else None
    if isinstance(s, decimal.Decimal):
        return int(s) if s.is_finite() and s == int(s) else None
    return None


def canon(t: str, s: Any) -> Optional[List[Any]]:
    """Acceptable stored values for supplied `s` in a column declared `t`;
    None = the declared type cannot represent `s` (an append must reject it)."""
    if s is None:
        return [None]
    try:
        if t == "boolean":
            return [s] if isinstance(s, bool) else None
        if t in ("int", "long"):
            n = _exact_int(s)
            lo, hi = (-2**31, 2**31 - 1) if t == "int" else (-2**63, 2**63 - 1)
            return [n] if n is not None and lo <= n <= hi else None
        if t in ("double", "float"):
            if isinstance(s, float):
                return [s if t == "double" else f32(s)]
            if isinstance(s, int):
                f = float(s)
                if t == "float":
                    f = f32(f)
                return [f] if math.isfinite(f) and int(f) == int(s) else None
            return None
        if t == "string":
            if isinstance(s, str):
                s.encode("utf-8")
                return [s]
            if isinstance(s, (bytes, bytearray)):
                return [bytes(s).decode("utf-8")]
            return None
        if t == "binary":
            if isinstance(s, (bytes, bytearray)):
                return [bytes(s)]
            if isinstance(s, str):
                return [s.encode("utf-8")]
            return None
        if t == "date":
            if isinstance(s, DT):
                alts = [s.date()]
                if s.tzinfo is not None:
                    alts.append(s.astimezone(UTC).date())
                return alts
            if isinstance(s, DATE):
                return [s]
            n = _exact_int(s)
            return [EPOCH_D + _dt.timedelta(days=n)] if n is not None else None
        if t == "timestamp":
            if isinstance(s, DT):
                return [s if s.tzinfo is None else s.astimezone(UTC).replace(tzinfo=None)]
            if isinstance(s, DATE):
                return [DT(s.year, s.month, s.day)]
            n = _exact_int(s)
            return [EPOCH_TS + _dt.timedelta(microseconds=n)] if n is not None else None
    except (OverflowError, ValueError, UnicodeError):
        return None
    raise HarnessError(f"canon: unknown type {t}")


def same(t: str, e: Any, o: Any) -> bool:
    if e is None or o is None:
        return e is None and o is None
    if t == "boolean":
        return isinstance(o, bool) and o == e
    if t in ("int", "long"):
        return isinstance(o, int) and not isinstance(o, bool) and o == e
    if t in ("double", "float"):
        return isinstance(o, float) and ((o != o and e != e) or o == e)
    if t == "string":
        return isinstance(o, str) and o == e
    if t == "binary":
        return isinstance(o, bytes) and o == e
    if t == "date":
        return isinstance(o, DATE) and not isinstance(o, DT) and o == e
    if t == "timestamp":
        return isinstance(o, DT) and o.tzinfo is None and o == e
    raise HarnessError(f"same: unknown type {t}")


def _tag(v: Any) -> Any:
    if isinstance(v, DT):
        return ("datetime", v.isoformat())
    if isinstance(v, float):
        return ("float", repr(v))
    if isinstance(v, (bytes, bytearray)):
        return ("bytes", bytes(v).hex())
    return (type(v).__name__, repr(v))


def rowkey(r: Any) -> Any:
    if not isinstance(r, dict):
        return ("<not a dict>", repr(r))
    return tuple(sorted((str(k), _tag(v)) for k, v in r.items()))


def rowkeys(rows: List[Any]) -> List[Any]:
    return sorted((rowkey(r) for r in rows), key=repr)


# ---------------------------------------------------------------------------
# case construction
# ---------------------------------------------------------------------------
def table_fields(t: str, req: bool) -> List[Dict[str, Any]]:
    return [{"id": 1, "name": "k", "type": "long", "required": True},
            {"id": 2, "name": "v", "type": t, "required": req}]


def schema_arg(t: str, req: bool, variant: str, sid_rel: str):
    """The Schema object passed as `schema=` (None = omitted)."""
    from datashard import Schema

    if variant == "omitted":
        return None
    k, v = (dict(f) for f in table_fields(t, req))
    if variant == "identical":
        fields = [k, v]
    elif variant == "reordered":
        fields = [v, k]
    elif variant == "renumbered_swapped":
        k["id"], v["id"] = 2, 1
        fields = [k, v]
    elif variant == "renumbered_shifted":
        k["id"], v["id"] = 11, 12
        fields = [k, v]
    elif variant == "type_changed":
        v["type"] = ALT_TYPE[t]
        fields = [k, v]
    elif variant == "nullability_flipped":
        v["required"] = not req
        fields = [k, v]
    elif variant == "extra_field":
        fields = [k, v, {"id": 3, "name": "x", "type": "string", "required": False}]
    elif variant == "missing_field":
        fields = [k]
    else:
        raise HarnessError(f"unknown schema variant {variant}")
    return Schema(schema_id=1 if sid_rel == "same" else 2, fields=fields)


def base_rows(t: str, req: bool) -> List[Dict[str, Any]]:
    a, b, _g = PLAIN[t]
    return [{"k": 100, "v": a}, {"k": 101, "v": b if req else None}]


def supplied_value(t: str, vname: str) -> Tuple[str, Any]:
    if vname == "plain":
        return "plain", PLAIN[t][1]
    c, v, _r = VALUE_BY_NAME[vname]
    return c, v


def test_records(t: str, vname: str) -> List[Dict[str, Any]]:
    _c, x = supplied_value(t, vname)
    good = {"k": 200, "v": PLAIN[t][2]}
    if x is EMPTY:
        return []
    if x is MISSING:
        return [good, {"k": 201}]
    if x is EXTRA:
        return [good, {"k": 201, "v": PLAIN[t][1], "zz": 1}]
    if x is EXTRA_NOV:
        return [good, {"k": 201, "zz": 1}]
    return [good, {"k": 201, "v": x}]


def arrow_type(t: str):
    import pyarrow as pa

    return {"boolean": pa.bool_(), "int": pa.int32(), "long": pa.int64(), "float": pa.float32(),
            "double": pa.float64(), "string": pa.string(), "date": pa.date32(),
            "timestamp": pa.timestamp("us"), "binary": pa.binary()}[t]


def build_file(root: str, t: str, req: bool, content: str, n: int) -> Tuple[Optional[str], List[Dict[str, Any]]]:
    """Place a pre-built file under <root>/data; returns (table-relative path, rows it holds)."""
    import pyarrow as pa
    import pyarrow.parquet as pq

    a, b, _g = PLAIN[t]
    rows = [{"k": 300, "v": a}, {"k": 301, "v": b if req else None}]
    rel = f"data/pre_{n}.parquet"
    full = os.path.join(root, rel)
    os.makedirs(os.path.dirname(full), exist_ok=True)
    fk = pa.field("k", pa.int64(), nullable=False)
    fv = pa.field("v", arrow_type(t), nullable=not req)
    if content in ("matching", "matching_relpath"):
        sch = pa.schema([fk, fv])
    elif content == "reordered_columns":
        sch = pa.schema([fv, fk])
    elif content == "different_type":
        alt = ALT_TYPE[t]
        rows = [{"k": 300, "v": PLAIN[alt][0]}, {"k": 301, "v": PLAIN[alt][1] if req else None}]
        sch = pa.schema([fk, pa.field("v", arrow_type(alt), nullable=not req)])
    elif content == "nullability_flipped":
        rows = [{"k": 300, "v": a}, {"k": 301, "v": b}]
        sch = pa.schema([fk, pa.field("v", arrow_type(t), nullable=req)])
    elif content == "extra_column":
        rows = [dict(r, x="e") for r in rows]
        sch = pa.schema([fk, fv, pa.field("x", pa.string())])
    elif content == "missing_column":
        rows = [{"k": 300}, {"k": 301}]
        sch = pa.schema([fk])
    elif content == "unreadable_bytes":
        with open(full, "wb") as f:
            f.write(b"PAR1 this is not a parquet file \x00\x01\x02 PAR1")
        return rel, rows
    elif content == "empty_file":
        with open(full, "wb") as f:
            pass
        return rel, rows
    elif content == "missing_file":
        return rel, rows
    else:
        raise HarnessError(f"unknown file content variant {content}")
    pq.write_table(pa.Table.from_pylist(rows, schema=sch), full)
    return rel, rows


# ---------------------------------------------------------------------------
# one case
# ---------------------------------------------------------------------------
class Run:
    def __init__(self, case: Dict[str, Any]):
        self.case = case
        self.findings: List[Dict[str, Any]] = []
        self.counters: Dict[str, int] = {}
        self.outcome = "?"

    def find(self, problem: str, step: str, **info: Any) -> None:
        for f in self.findings:
            if f["problem"] == problem:
                f.setdefault("more", []).append({"after": step, **{k: repr(v)[:200] for k, v in info.items()}})
                f["more"] = f["more"][:4]
                return
        self.findings.append({"problem": problem, "after": step, **info})

    def count(self, k: str, n: int = 1) -> None:
        self.counters[k] = self.counters.get(k, 0) + n


def _state(root: str) -> Dict[str, Any]:
    st = reader.TableState(reader.LocalView(root))
    out: Dict[str, Any] = {"snapshots": st.snapshot_ids(), "current": st.current_id, "errors": list(st.errors)}
    try:
        out["reachable"] = sorted(st.reachable())
        out["rows"] = st.current_rows()
    except reader.ReadError as e:
        out["errors"].append(str(e))
    return out


def _exc(e: BaseException) -> str:
    return f"{type(e).__name__}: {str(e)[:240]}"


def _pred(op: str, lit: Any) -> Callable[[Any], bool]:
    if op == "eq":
        return lambda v: v is not None and v == lit
    if op == ">=":
        return lambda v: v is not None and v >= lit
    if op == "<":
        return lambda v: v is not None and v < lit
    if op == "is_null":
        return lambda v: v is None
    raise HarnessError(op)


def _filters(col: str, ref: List[Dict[str, Any]]) -> List[Tuple[str, Dict[str, Any], Callable[[Any], bool]]]:
    lits: List[Any] = []
    for r in sorted(ref, key=lambda r: -r["k"]):  # newest rows first
        v = r.get(col)
        if v is None or (isinstance(v, float) and v != v):
            continue
        if not any(type(v) is type(x) and v == x for x in lits):
            lits.append(v)
    lits = lits[:2]
    out: List[Tuple[str, Dict[str, Any], Callable[[Any], bool]]] = []
    for i, lit in enumerate(lits):
        out.append(("eq" if i else "eq+iter", {col: lit}, _pred("eq", lit)))
    if lits:
        out.append((">=", {col: (">=", lits[0])}, _pred(">=", lits[0])))
        out.append(("<", {col: ("<", lits[0])}, _pred("<", lits[0])))
    out.append(("is_null", {col: ("is_null", True)}, _pred("is_null", None)))
    return out


def battery(run: Run, step: str, root: str, handle: Any, t: str, req: bool,
            expected: Dict[int, Optional[List[Any]]], judged: Dict[int, str], full: bool) -> None:
    """Read-side oracle after an append.  expected: k -> acceptable values (None = unrepresentable)."""
    from datashard import load_table

    raised: List[Dict[str, str]] = []

    def call(name: str, fn: Callable[[], Any]) -> Tuple[bool, Any]:
        run.count("reads")
        try:
            return True, fn()
        except Exception as e:  # any exception from a read API after an accepted append
            raised.append({"read": name, "error": _exc(e)})
            return False, None

    # 1. full scan: previous rows (+) supplied rows, value by value
    ok, rows = call("scan()", lambda: handle.scan())
    ref: List[Dict[str, Any]]
    if ok:
        by_k: Dict[Any, List[Dict[str, Any]]] = {}
        for r in rows:
            by_k.setdefault(r.get("k") if isinstance(r, dict) else None, []).append(r)
        if sorted(by_k, key=repr) != sorted(expected, key=repr) or any(len(v) != 1 for v in by_k.values()):
            run.find("rows_lost_or_duplicated", step, expected_keys=sorted(expected), observed=rows)
        ref = []
        for k, rs in by_k.items():
            r = rs[0]
            ref.append(r)
            if k not in expected:
                continue
            who = judged.get(k, "other")
            if set(r) != {"k", "v"}:
                run.find("silently_altered" if who == "test" else "other_rows_altered", step,
                         k=k, observed_row=r, note="column set differs from the table's columns")
                continue
            alts = expected[k]
            if req and r["v"] is None:
                run.find("null_in_required_column", step, k=k)
            elif alts is None:
                run.find("silently_altered", step, k=k, observed=r["v"],
                         note="the declared type cannot represent the supplied value, yet the append was accepted")
            elif not any(same(t, e, r["v"]) for e in alts):
                run.find("silently_altered" if who == "test" else "other_rows_altered", step,
                         k=k, expected=alts, observed=r["v"])
            expected[k] = [r["v"]]  # adopt what is stored: later comparisons judge the read path only
    else:
        ref = [{"k": k, "v": (alts or [None])[0]} for k, alts in expected.items()]
    want = rowkeys(ref)

    # 2. every other read API returns the same multiset
    def flat_batches() -> List[Any]:
        return [r for b in handle.scan_batches(batch_size=1) for r in b]

    apis: List[Tuple[str, Callable[[], Any]]] = [("row_count()", lambda: handle.row_count())]
    if full:
        apis += [("scan(parallel=2)", lambda: handle.scan(parallel=2)),
                 ("scan_batches(batch_size=1)", flat_batches),
                 ("iter_records()", lambda: list(handle.iter_records()))]
    for name, fn in apis:
        ok2, got = call(name, fn)
        if not ok2 or not ok:
            continue
        if name == "row_count()":
            if got != len(ref):
                run.find("apis_disagree", step, read=name, expected=len(ref), observed=got)
        elif rowkeys(got) != want:
            run.find("apis_disagree", step, read=name, expected=ref, observed=got)

    # 3. equality / range / is_null filter on every column vs. plain-Python evaluation
    if full and ok:
        for col in ("k", "v"):
            for op, fd, pred in _filters(col, ref):
                try:
                    exp_rows = [r for r in ref if pred(r.get(col))]
                except TypeError:
                    run.count("filters_skipped_reference_not_evaluable")
                    continue
                readers: List[Tuple[str, Callable[[], Any]]] = [(f"scan(filter={fd!r})", lambda fd=fd: handle.scan(filter=fd))]
                if op == "eq+iter":
                    readers.append((f"iter_records(filter={fd!r})", lambda fd=fd: list(handle.iter_records(filter=fd))))
                for name, fn in readers:
                    ok3, got = call(name, fn)
                    run.count("filter_evaluations")
                    if ok3 and rowkeys(got) != rowkeys(exp_rows):
                        run.find("mis_filter", step, read=name, expected=exp_rows, observed=got)

    # 4. re-open and repeat the full scan
    ok4, got = call("load_table().scan()", lambda: load_table(root).scan())
    if ok4 and ok and rowkeys(got) != want:
        run.find("reopen_differs", step, expected=ref, observed=got)
    if raised:
        run.find("later_scan_raises", step, reads=raised[:6], n_reads_raising=len(raised))


def run_case(case: Dict[str, Any], idx: int = 0) -> Run:
    from datashard import DataFile, FileFormat, Schema, create_table, load_table

    run = Run(case)
    t, req, api, hist = case["type"], case["required"], case["api"], case["history"]
    root = fresh_dir(f"c11-{idx}")
    try:
        h0 = create_table(root, Schema(schema_id=1, fields=table_fields(t, req)))
        expected: Dict[int, Optional[List[Any]]] = {}
        judged: Dict[int, str] = {}
        test_first = hist.startswith("test_base")
        fresh_second = hist.endswith("fresh_handle")
        order = ["test", "base"] if test_first else ["base", "test"]
        handle = h0
        test_accepted = False
        for pos, step in enumerate(order):
            if pos == 1 and fresh_second:
                handle = load_table(root)
            if step == "base":
                rows = base_rows(t, req)
                try:
                    handle.append_records([dict(r) for r in rows])
                except Exception as e:
                    if pos == 0:
                        raise HarnessError(f"plain base append failed on a pristine table {case}: {_exc(e)}")
                    # counted, not judged: the statement speaks of later scans, not later appends
                    run.count("base_append_raised_after_accepted_test" if test_accepted
                              else "base_append_raised_after_rejected_test")
                    run.case["note"] = "the plain append after the test append raised: " + _exc(e)
                    break
                for r in rows:
                    expected[r["k"]] = [r["v"]]
                    judged[r["k"]] = "base"
                # the state after a lone plain base append is identical for every case of this
                # (type, required): judged in full once per worker (baseline), lightly otherwise
                full = pos == 1 or case.get("baseline", False)
                battery(run, "base", root, handle, t, req, expected, judged, full)
                continue

            # ---- the append under test ----
            before = _state(root)
            if before["errors"]:
                raise HarnessError(f"independent reader cannot read the table before the test append: {before['errors']}")
            supplied: List[Dict[str, Any]]
            try:
                if case["space"] == "records":
                    supplied = test_records(t, case["value"])
                    sarg = schema_arg(t, req, case["schema_arg"], case["schema_id_rel"])
                    recs = [dict(r) for r in supplied]
                    kw = {} if sarg is None else {"schema": sarg}  # omitted = the argument is not passed at all
                    if api == "append_records":
                        handle.append_records(recs, **kw)
                    elif api == "tx_append_data":
                        with handle.new_transaction() as tx:  # one transaction, two data files
                            tx.append_data(records=recs[:1])
                            tx.append_data(records=recs[1:], **kw)
                    else:
                        raise HarnessError(api)
                else:
                    rel, supplied = build_file(root, t, req, case["file_variant"], idx)
                    full_path = os.path.join(root, rel)
                    size = os.path.getsize(full_path) if os.path.exists(full_path) else 0
                    fmt = {"parquet": FileFormat.PARQUET, "avro": FileFormat.AVRO, "orc": FileFormat.ORC}[case["format_label"]]
                    path = rel if case["file_variant"] == "matching_relpath" else "/" + rel
                    df = DataFile(file_path=path, file_format=fmt, partition_values={},
                                  record_count=len(supplied), file_size_in_bytes=size)
                    if api == "append_files":
                        with handle.new_transaction() as tx:
                            tx.append_files([df])
                            tx.commit()
                    elif api == "table_append_data":
                        handle.append_data([df])
                    else:
                        raise HarnessError(api)
                test_accepted = True
            except HarnessError:
                raise
            except Exception as e:
                run.case["rejection"] = _exc(e)

            if not test_accepted:
                run.outcome = "rejected"
                after = _state(root)
                diff = {k: {"before": before[k], "after": after[k]} for k in before if before[k] != after[k]}
                if diff:
                    run.find("rejected_but_changed", "test", diff=diff, error=run.case["rejection"])
                leftovers = set(reader.LocalView(root).list()) - set(after.get("reachable", []))
                if any(p.startswith("data/") and "pre_" not in p for p in leftovers):
                    run.count("rejected_with_unreachable_data_leftovers")
                battery(run, "test(rejected)", root, handle, t, req, expected, judged, False)
                continue

            run.outcome = "accepted"
            for r in supplied:
                k = r["k"]
                judged[k] = "test"
                if case["space"] == "files":
                    expected[k] = [r.get("v")]
                    if set(r) != {"k", "v"}:
                        expected[k] = None  # a file with a different column set cannot be the table's rows
                elif "zz" in r:
                    expected[k] = None  # unknown record field: accepted => silently dropped
                else:
                    expected[k] = canon(t, r.get("v"))
                if req and r.get("v") is None and expected[k] is not None:
                    expected[k] = None  # a required column cannot represent None
            battery(run, "test", root, handle, t, req, expected, judged, True)
        return run
    finally:
        shutil.rmtree(root, ignore_errors=True)


# ---------------------------------------------------------------------------
# enumeration per worker
# ---------------------------------------------------------------------------
def record_cases(t: str, req: bool, api: str, hist: str, tier: str) -> List[Dict[str, Any]]:
    base = {"space": "records", "type": t, "required": req, "api": api, "history": hist}
    cases: List[Dict[str, Any]] = []
    names = ["plain"] + [n for n, _c, _v, _r in _VALUES]
    reps = ["plain"] + [n for n, _c, _v, r in _VALUES if r]
    s2_values = reps
    if tier == "quick":
        reps = [n for n in reps if supplied_value(t, n)[0] in QUICK_S2_CLASSES]
        s2_values = reps
        if api == "tx_append_data":
            names, s2_values = reps, ["plain"]
        elif hist not in QUICK_FULL_S1_HISTORIES:
            names = reps
    # S1: every value x {omitted, identical}
    for n in names:
        for sv in ("omitted", "identical"):
            if tier == "quick" and sv == "identical" and n not in reps:
                continue
            cases.append(dict(base, value=n, value_class=supplied_value(t, n)[0], schema_arg=sv, schema_id_rel="same"))
    # S2: representatives x every other schema variant
    for fv in FIELD_VARIANTS:
        for sid in ("same", "different"):
            if fv == "identical" and sid == "same":
                continue
            for n in s2_values:
                cases.append(dict(base, value=n, value_class=supplied_value(t, n)[0], schema_arg=fv, schema_id_rel=sid))
    return cases


def file_cases(t: str, req: bool, api: str, hist: str) -> List[Dict[str, Any]]:
    return [{"space": "files", "type": t, "required": req, "api": api, "history": hist,
             "file_variant": c, "format_label": lab} for c, lab in FILE_VARIANTS]


def _variant_name(case: Dict[str, Any]) -> str:
    if case["schema_arg"] == "identical" and case["schema_id_rel"] == "different":
        return "identical_new_schema_id"
    return case["schema_arg"]


def _distinct(case: Dict[str, Any]) -> Tuple:
    if case["space"] == "records":
        return ("records", case["type"], case["value_class"], case["schema_arg"] + "/" + case["schema_id_rel"],
                case["history"], case["api"])
    return ("files", case["type"], case["file_variant"] + "/" + case["format_label"], case["history"], case["api"])


def _trivial_schema(case: Dict[str, Any]) -> bool:
    return case["schema_arg"] == "omitted" or (case["schema_arg"] == "identical" and case["schema_id_rel"] == "same")


def worker(payload: Tuple[str, str, bool, str, str, str, int]) -> Dict[str, Any]:
    space, t, req, api, hist, tier, seed = payload
    use_local()
    ENV.reset(seed)
    import pyarrow as pa

    pa.set_cpu_count(1)  # 16 workers x pyarrow's own 16-thread pool only oversubscribes the machine
    pa.set_io_thread_count(1)
    rep = Report("C11", tier, seed, "exploration")
    cases = record_cases(t, req, api, hist, tier) if space == "records" else file_cases(t, req, api, hist)
    if space == "records":
        cases[0]["baseline"] = True
    runs: List[Run] = []
    for i, case in enumerate(cases):
        run = run_case(case, i)
        runs.append(run)
        rep.add("evaluations")
        rep.add("accepted" if run.outcome == "accepted" else "rejected" if run.outcome == "rejected" else "test_append_not_reached")
        for k, n in run.counters.items():
            rep.add(k, n)
        if not (space == "records" and _trivial_schema(case) and case["value_class"] == "plain"):
            rep.nontrivial(_distinct(case))
        d = rep.cov.setdefault("outcomes_by_class", {})
        cls = case["value_class"] if space == "records" and _trivial_schema(case) else (
            "schema:" + _variant_name(case) if space == "records" else "file:" + case["file_variant"] + "/" + case["format_label"])
        if space == "files" or _trivial_schema(case) or case["value_class"] == "plain":
            d[f"{cls}:{run.outcome}"] = d.get(f"{cls}:{run.outcome}", 0) + 1

    # attribution of findings to the smallest structural key
    ctrl_value: Dict[str, set] = {}
    ctrl_schema: Dict[Tuple[str, str], set] = {}
    for run in runs:
        c = run.case
        if space != "records":
            continue
        probs = {f["problem"] for f in run.findings}
        if c["schema_arg"] == "omitted":
            ctrl_value[c["value"]] = probs
        if c["value"] == "plain":
            ctrl_schema[(c["schema_arg"], c["schema_id_rel"])] = probs
    for run in runs:
        c = run.case
        for f in run.findings:
            p = f["problem"]
            if space == "files":
                key = {"api": c["api"], "file_variant": c["file_variant"], "format_label": c["format_label"], "problem": p}
            elif _trivial_schema(c):
                key = {"type": c["type"], "value_class": c["value_class"], "problem": p}
            elif c["value"] == "plain":
                key = {"api": c["api"], "schema_arg": _variant_name(c), "problem": p}
            elif p in ctrl_value.get(c["value"], ()):
                key = {"type": c["type"], "value_class": c["value_class"], "problem": p}
            elif p in ctrl_schema.get((c["schema_arg"], c["schema_id_rel"]), ()):
                key = {"api": c["api"], "schema_arg": _variant_name(c), "problem": p}
            else:
                key = {"api": c["api"], "schema_arg": _variant_name(c), "type": c["type"],
                       "value_class": c["value_class"], "problem": p}
            rep.violation(key, {"case": {k: v for k, v in c.items()}, "finding": f,
                                "supplied": _supplied_repr(c)})
    for run in runs:
        if run.outcome == "accepted" and not run.findings and run.case.get("value_class") not in (None, "plain"):
            rep.sample({"case": run.case, "outcome": run.outcome, "supplied": _supplied_repr(run.case)})
            break
    for run in runs:
        if run.outcome == "rejected" and not run.findings:
            rep.sample({"case": run.case, "outcome": run.outcome, "supplied": _supplied_repr(run.case)})
            break
    return rep.part()


def _supplied_repr(case: Dict[str, Any]) -> Any:
    if case["space"] == "records":
        return {"records": repr(test_records(case["type"], case["value"])),
                "table_fields": table_fields(case["type"], case["required"])}
    return {"file": case["file_variant"], "label": case["format_label"]}


def payloads(tier: str, seed: int) -> List[Tuple[str, str, bool, str, str, str, int]]:
    types = QUICK_TYPES if tier == "quick" else ALL_TYPES
    out: List[Tuple[str, str, bool, str, str, str, int]] = []
    for t in types:
        for req in (False, True):
            for hist in HISTORIES:
                for api in RECORD_APIS:
                    out.append(("records", t, req, api, hist, tier, seed))
                for api in FILE_APIS:
                    out.append(("files", t, req, api, hist, tier, seed))
    # biggest payloads first; the seed only permutes the order
    out.sort(key=lambda p: (p[0] != "records", p[3] != "append_records"))
    if seed:
        import random

        random.Random(seed).shuffle(out)
    return out


def large_worker(payload: Tuple[str, int, str]) -> Dict[str, Any]:
    """Appends that are written in several internal batches (the writer slices a record list into batches of 1000):
    every size at and around the batch boundaries x both record entry points - the scan must return exactly the
    supplied multiset (no row lost at a boundary, none duplicated), and so must the independent reader."""
    from datashard import create_table, load_table
    from dsmc import reader
    from dsmc.tables import fresh_dir, row, schema, use_local

    tier, seed, api = payload
    rep = Report("C11", tier, seed, "exploration")
    sizes = (999, 1000, 1001, 2000, 2001, 2500) if tier == "quick" else (999, 1000, 1001, 1999, 2000, 2001, 2500, 3000, 3001, 5000)
    for n in sizes:
        use_local()
        root = fresh_dir(f"c11-large-{api}-{n}")
        t = create_table(root, schema())
        recs = [row(i) for i in range(n)]
        if api == "append_records":
            t.append_records(recs)
        else:
            with t.new_transaction() as tx:
                tx.append_data(recs)
        want = reader.canon_rows(recs)
        for handle_name, h in (("same", t), ("fresh", load_table(root))):
            rep.add("evaluations")
            rep.add("large_append_cases")
            rep.nontrivial(("large", api, n, handle_name))
            got = reader.canon_rows(h.scan())
            ind = reader.TableState(reader.LocalView(root)).current_rows()
            cnt = h.row_count()
            probs = []
            if got != want:
                probs.append(f"scan returned {len(got)} rows for {n} supplied ({len(set(got))} distinct)")
            if ind != want:
                probs.append(f"the data files hold {len(ind)} rows for {n} supplied")
            if cnt != n:
                probs.append(f"row_count() = {cnt} for {n} supplied")
            for k in (0, 999, 1000, 1999, 2000, n - 1):
                if k < n:
                    f = reader.canon_rows(h.scan(filter={"a": ("==", k)}))
                    if f != [reader.canon_row(row(k))]:
                        probs.append(f"filter a == {k} returned {len(f)} rows")
            if probs:
                rep.violation({"part": "large_append", "api": api, "problem": "rows_not_exactly_as_supplied",
                               "size_class": "one_batch" if n <= 1000 else ("two_batches" if n <= 2000 else "three_or_more_batches")},
                              {"rows_supplied": n, "handle": handle_name, "problems": probs[:6]})
    return rep.part()


def run(tier: str, seed: int) -> Report:
    rep = Report("C11", tier, seed, "exploration")
    ps = payloads(tier, seed)
    for part in pmap("checks.c11", "worker", ps):
        rep.merge(part)
    for part in pmap("checks.c11", "large_worker", [(tier, seed, a) for a in RECORD_APIS]):
        rep.merge(part)
    rep.add("worker_payloads", len(ps))
    types = QUICK_TYPES if tier == "quick" else ALL_TYPES
    rep.cov["space"] = {
        "column_types": len(types), "nullability": 2, "supplied_values": len(_VALUES) + 1,
        "value_classes": len({c for _n, c, _v, _r in _VALUES}) + 1,
        "schema_arg_variants": 1 + len(FIELD_VARIANTS) * 2, "histories": len(HISTORIES),
        "record_apis": len(RECORD_APIS), "file_apis": len(FILE_APIS), "file_variants": len(FILE_VARIANTS),
    }
    rep.cov["exhaustive"] = not rep.caps
    rep.cov["rule"] = (
        "records space: column type x required/optional x api {Table.append_records, two Transaction.append_data in one "
        "transaction} x history {base;test | test;base} x handle {same, fresh load_table} x (S1: every one of the "
        f"{len(_VALUES) + 1} supplied values x schema argument in {{omitted, identical}}; S2: one representative per value "
        "class x each of the 15 other schema-argument variants = 8 field variants x {same, different} schema_id"
        + ("; quick tier: 5 column types; S2 and the identical schema argument over 3 value classes {plain, none, fractional float}; the full value list only in the histories base;test/same handle and test;base/fresh handle, the 3 classes elsewhere; transaction api: S1 over the 3 classes, S2 over the plain value" if tier == "quick" else "")
        + "); files space: column type x required/optional x {Transaction.append_files, Table.append_data} x history x "
        f"{len(FILE_VARIANTS)} pre-built file variants. Every case is one fresh table with two appends, judged after each "
        "append. A case is non-trivial unless it is the happy path (plain value, schema omitted or identical); distinct = "
        "(column type, value class | file variant, schema-argument variant incl. schema_id relation, history/handle, api)")
    rep.assumptions += [
        "any exception from an append counts as a rejection; the exception type is not judged",
        "representation of a supplied value under the declared type (independent reference `canon`): numerically equal "
        "conversions are exact (True->1/1.0, 1.0->1, int->double/float when exactly representable, int n -> date epoch+n days / "
        "timestamp epoch+n us); a Python float into 'float' is judged after IEEE float32 round-to-nearest (overflow to inf "
        "included); datetime into 'date' is judged after .date(); aware datetimes are judged as UTC instants; str<->bytes via "
        "strict UTF-8; everything else (fractional number into an integer-backed column, out-of-range, wrong type, None in a "
        "required column, unknown record field) cannot be represented and must be rejected",
        "column order of returned dict rows and -0.0 vs 0.0 are not judged",
        "after a rejected append only state identity (independent reader: snapshot list, reachable files, rows), scan() and "
        "row_count() are judged; unreachable leftover files are allowed and only counted",
        "filter literals are taken from stored non-null non-NaN values, so no verdict hinges on NaN ordering",
        "a plain append that raises after an ACCEPTED test append is counted, not judged (the statement speaks of later scans)",
        "pre-built files carry no statistics or checksum (DataFile built by hand with the true record_count)",
    ]
    return rep


def replay(case: Dict[str, Any]) -> Dict[str, Any]:
    use_local()
    ENV.reset(case.get("seed", 0))
    c = dict(case["detail"]["case"])
    c.pop("rejection", None)
    c.pop("note", None)
    run = run_case(c, 0)
    hit = [f for f in run.findings if f["problem"] == case["key"]["problem"]]
    from dsmc.report import jsonable

    return {"violated": bool(hit), "outcome": run.outcome, "findings": jsonable(hit[:2]), "case": jsonable(run.case)}
