"""In-memory, strongly consistent S3 with AWS conditional-write semantics.

  put_object     honours IfNoneMatch='*' / IfMatch=<etag> (PreconditionFailed)
  ETag           = '"md5(body)"' (as on AWS for single-part puts; also makes
                   the store state independent of the order of commuting puts)
  LastModified   = virtual clock (dsmc.env.ENV.clock)
  get_object     supports Range
  list_objects_v2 + paginator

Every request goes through `self.gate(req)` first: that is the seam where the
scheduler takes a scheduling point, a fault plan raises, or a trace is recorded.
"""
from __future__ import annotations

import datetime as _dt
import hashlib
import io
from typing import Any, Callable, Dict, List, Optional

from botocore.exceptions import ClientError

from .env import ENV, REAL_DATETIME


def _err(code: str, op: str, status: int = 400) -> ClientError:
    return ClientError(
        {"Error": {"Code": code, "Message": code}, "ResponseMetadata": {"HTTPStatusCode": status}}, op
    )


class Req:
    __slots__ = ("op", "key", "kind", "cond", "actor", "idx", "extra")

    def __init__(self, op: str, key: str, kind: str, cond: Optional[str] = None, extra: Any = None):
        self.op = op
        self.key = key
        self.kind = kind  # r | w | l
        self.cond = cond
        self.actor = ENV.actor()
        self.idx = -1
        self.extra = extra

    def label(self) -> str:
        c = f"[{self.cond}]" if self.cond else ""
        return f"{self.op}{c} {self.key}"

    def __repr__(self) -> str:
        return f"{self.actor}:{self.label()}"


class Obj:
    __slots__ = ("body", "etag", "lm")

    def __init__(self, body: bytes, lm: float):
        self.body = body
        self.etag = '"' + hashlib.md5(body).hexdigest() + '"'
        self.lm = lm


class _Body:
    def __init__(self, data: bytes, fault: Optional[BaseException] = None):
        self._b = io.BytesIO(data)
        self._fault = fault  # raised by the first read(): the connection broke while the body was streaming

    def read(self, n: Optional[int] = None) -> bytes:
        if self._fault is not None:
            f, self._fault = self._fault, None
            raise f
        return self._b.read() if n is None or n < 0 else self._b.read(n)

    def close(self) -> None:
        pass


class FakeS3:
    def __init__(self, bucket: str = "bkt") -> None:
        self.bucket = bucket
        self.objs: Dict[str, Obj] = {}
        self.gates: List[Callable[[Req], None]] = []  # called before the effect
        self.after: List[Callable[[Req, Any], None]] = []  # called after (result or exc)
        self.nreq = 0
        self.digest = 0  # order independent digest of (key, etag, lm)
        self.body_fault: Any = None  # callable(Req) -> exception raised by the first read() of that response body
        self.page_size = 1000  # keys per list_objects_v2 page (AWS: 1000); small values exercise pagination
        self.clock_skew = 0.0  # server clock minus client clock (LastModified is stamped by the server)

    # ---- state ----------------------------------------------------------
    def clone_state(self) -> Dict[str, Obj]:
        return dict(self.objs)

    def load_state(self, st: Dict[str, Obj]) -> None:
        self.objs = dict(st)
        self.nreq = 0
        d = 0
        for k, o in self.objs.items():
            d ^= self._h(k, o)
        self.digest = d

    @staticmethod
    def _h(k: str, o: Obj) -> int:
        return int.from_bytes(hashlib.md5(f"{k}|{o.etag}|{o.lm:.6f}".encode()).digest()[:8], "big")

    def _set(self, key: str, body: bytes) -> Obj:
        old = self.objs.get(key)
        if old is not None:
            self.digest ^= self._h(key, old)
        o = Obj(bytes(body), ENV.clock + self.clock_skew)
        self.objs[key] = o
        self.digest ^= self._h(key, o)
        ENV.on_publish(key)
        return o

    def _del(self, key: str) -> None:
        old = self.objs.pop(key, None)
        if old is not None:
            self.digest ^= self._h(key, old)

    def age(self, key: str, seconds: float) -> None:
        """Harness helper: make `key` look `seconds` older."""
        o = self.objs[key]
        self.digest ^= self._h(key, o)
        o2 = Obj(o.body, o.lm - seconds)
        self.objs[key] = o2
        self.digest ^= self._h(key, o2)

    # ---- request plumbing -------------------------------------------------
    def _gate(self, req: Req) -> None:
        req.idx = self.nreq
        self.nreq += 1
        for g in self.gates:
            g(req)

    def _done(self, req: Req, res: Any) -> None:
        for a in self.after:
            a(req, res)

    def _chk(self, Bucket: str) -> None:
        if Bucket != self.bucket:
            raise _err("NoSuchBucket", "s3", 404)

    # ---- API ------------------------------------------------------------
    def put_object(self, Bucket: str, Key: str, Body: Any = b"", IfNoneMatch: Optional[str] = None,
                   IfMatch: Optional[str] = None, **kw: Any) -> Dict[str, Any]:
        self._chk(Bucket)
        cond = "IfNoneMatch" if IfNoneMatch else ("IfMatch" if IfMatch else None)
        req = Req("PUT", Key, "w", cond, extra=IfMatch)
        self._gate(req)
        try:
            if hasattr(Body, "read"):
                Body = Body.read()
            if isinstance(Body, str):
                Body = Body.encode()
            cur = self.objs.get(Key)
            if IfNoneMatch == "*" and cur is not None:
                raise _err("PreconditionFailed", "PutObject", 412)
            if IfMatch is not None:
                if cur is None:
                    raise _err("NoSuchKey", "PutObject", 404)
                if cur.etag != IfMatch:
                    raise _err("PreconditionFailed", "PutObject", 412)
            o = self._set(Key, Body)
            res = {"ETag": o.etag, "ResponseMetadata": {"HTTPStatusCode": 200}}
        except BaseException as e:
            self._done(req, e)
            raise
        self._done(req, res)
        return res

    def get_object(self, Bucket: str, Key: str, Range: Optional[str] = None, **kw: Any) -> Dict[str, Any]:
        self._chk(Bucket)
        req = Req("GET", Key, "r", extra=Range)
        self._gate(req)
        try:
            o = self.objs.get(Key)
            if o is None:
                raise _err("NoSuchKey", "GetObject", 404)
            data = o.body
            if Range is not None:
                assert Range.startswith("bytes=")
                a, b = Range[6:].split("-")
                first = int(a)
                last = int(b) if b else len(data) - 1
                if first >= len(data) or first > last:
                    raise _err("InvalidRange", "GetObject", 416)
                data = data[first:last + 1]
            bf = self.body_fault(req) if self.body_fault is not None else None
            res = {"Body": _Body(data, bf), "ETag": o.etag, "ContentLength": len(data),
                   "LastModified": REAL_DATETIME.fromtimestamp(o.lm, _dt.timezone.utc)}
        except BaseException as e:
            self._done(req, e)
            raise
        self._done(req, o)
        return res

    def head_object(self, Bucket: str, Key: str, **kw: Any) -> Dict[str, Any]:
        self._chk(Bucket)
        req = Req("HEAD", Key, "r")
        self._gate(req)
        try:
            o = self.objs.get(Key)
            if o is None:
                raise _err("404", "HeadObject", 404)
            res = {"ETag": o.etag, "ContentLength": len(o.body),
                   "LastModified": REAL_DATETIME.fromtimestamp(o.lm, _dt.timezone.utc)}
        except BaseException as e:
            self._done(req, e)
            raise
        self._done(req, o)
        return res

    def delete_object(self, Bucket: str, Key: str, **kw: Any) -> Dict[str, Any]:
        self._chk(Bucket)
        req = Req("DELETE", Key, "w")
        self._gate(req)
        try:
            self._del(Key)
            res = {"ResponseMetadata": {"HTTPStatusCode": 204}}
        except BaseException as e:
            self._done(req, e)
            raise
        self._done(req, res)
        return res

    def list_objects_v2(self, Bucket: str, Prefix: str = "", MaxKeys: int = 1000, ContinuationToken: Optional[str] = None,
                        StartAfter: Optional[str] = None, **kw: Any) -> Dict[str, Any]:
        self._chk(Bucket)
        req = Req("LIST", Prefix, "l", extra=ContinuationToken or (("start-after", StartAfter) if StartAfter else None))
        self._gate(req)
        try:
            allkeys = sorted(k for k in self.objs if k.startswith(Prefix))
            if ContinuationToken:
                allkeys = [k for k in allkeys if k > ContinuationToken]
            elif StartAfter:
                allkeys = [k for k in allkeys if k > StartAfter]
            n = max(1, min(MaxKeys, self.page_size))
            keys = allkeys[:n]
            res: Dict[str, Any] = {"KeyCount": len(keys), "IsTruncated": len(allkeys) > n}
            if res["IsTruncated"]:
                res["NextContinuationToken"] = keys[-1]
            if keys:
                res["Contents"] = [
                    {"Key": k, "Size": len(self.objs[k].body), "ETag": self.objs[k].etag,
                     "LastModified": REAL_DATETIME.fromtimestamp(self.objs[k].lm, _dt.timezone.utc)}
                    for k in keys
                ]
        except BaseException as e:
            self._done(req, e)
            raise
        self._done(req, keys)
        return res

    def get_paginator(self, name: str) -> "_Paginator":
        assert name == "list_objects_v2"
        return _Paginator(self)


class _Paginator:
    def __init__(self, s3: FakeS3):
        self.s3 = s3

    def paginate(self, **kw: Any):
        # botocore semantics of PaginationConfig: PageSize -> MaxKeys of every request; MaxItems -> the iteration
        # stops once that many items were yielded in total (the last page is cut)
        cfg = kw.pop("PaginationConfig", None) or {}
        max_items = cfg.get("MaxItems")
        if cfg.get("PageSize"):
            kw["MaxKeys"] = int(cfg["PageSize"])
        token = cfg.get("StartingToken")
        yielded = 0
        while True:
            page = self.s3.list_objects_v2(ContinuationToken=token, **kw) if token else self.s3.list_objects_v2(**kw)
            if max_items is not None:
                room = int(max_items) - yielded
                items = page.get("Contents", [])
                if len(items) >= room:
                    page = dict(page, Contents=items[:room], KeyCount=room)
                    yield page
                    return
                yielded += len(items)
            yield page
            if not page.get("IsTruncated"):
                return
            token = page["NextContinuationToken"]


# ---------------------------------------------------------------------------
# boto3 + pyarrow.fs substitution
# ---------------------------------------------------------------------------
class _FakeSession:
    def __init__(self, s3: FakeS3):
        self._s3 = s3

    def client(self, name: str, **kw: Any) -> FakeS3:
        return self._s3


class _FakeBoto3:
    def __init__(self, s3: FakeS3):
        class _S:
            @staticmethod
            def Session(*a: Any, **k: Any) -> _FakeSession:
                return _FakeSession(s3)

        self.session = _S


class _Sink(io.RawIOBase):
    """Output stream handed to pyarrow: buffers, PUTs on close."""

    def __init__(self, s3: FakeS3, bucket: str, key: str):
        super().__init__()
        self._s3, self._bucket, self._key = s3, bucket, key
        self._buf = io.BytesIO()
        self._done = False

    def writable(self) -> bool:
        return True

    def write(self, b) -> int:  # type: ignore[override]
        return self._buf.write(bytes(b))

    def close(self) -> None:
        if not self._done:
            self._done = True
            self._s3.put_object(Bucket=self._bucket, Key=self._key, Body=self._buf.getvalue())
        super().close()


def make_arrow_fs(s3: FakeS3):
    import pyarrow as pa
    import pyarrow.fs as pafs

    class Handler(pafs.FileSystemHandler):
        def get_type_name(self):
            return "fakes3"

        def __eq__(self, other):
            return self is other

        def __ne__(self, other):
            return self is not other

        def normalize_path(self, path):
            return path

        def _split(self, path):
            b, _, k = path.partition("/")
            return b, k

        def get_file_info(self, paths):
            out = []
            for p in paths:
                b, k = self._split(p)
                o = s3.objs.get(k)
                if o is None:
                    out.append(pafs.FileInfo(p, pafs.FileType.NotFound))
                else:
                    out.append(pafs.FileInfo(p, pafs.FileType.File, size=len(o.body)))
            return out

        def get_file_info_selector(self, selector):
            return []

        def create_dir(self, path, recursive):
            pass

        def delete_dir(self, path):
            pass

        def delete_dir_contents(self, path, missing_dir_ok=False):
            pass

        def delete_root_dir_contents(self):
            pass

        def delete_file(self, path):
            b, k = self._split(path)
            s3.delete_object(Bucket=b, Key=k)

        def move(self, src, dest):
            raise NotImplementedError

        def copy_file(self, src, dest):
            raise NotImplementedError

        def open_input_stream(self, path):
            b, k = self._split(path)
            return pa.BufferReader(s3.get_object(Bucket=b, Key=k)["Body"].read())

        def open_input_file(self, path):
            return self.open_input_stream(path)

        def open_output_stream(self, path, metadata):
            b, k = self._split(path)
            return pa.PythonFile(_Sink(s3, b, k), mode="w")

        def open_append_stream(self, path, metadata):
            raise NotImplementedError

    return pafs.PyFileSystem(Handler())


class S3World:
    """Activates a FakeS3 for DataShard in this process (env vars + seams)."""

    def __init__(self, bucket: str = "bkt", env_prefix: str = "", cas: bool = True):
        self.s3 = FakeS3(bucket)
        self.env_prefix = env_prefix
        self.cas = cas
        self._saved: Dict[str, Any] = {}
        self.arrow_fs = None

    def __enter__(self) -> "S3World":
        import os

        import datashard.data_operations as dops
        import datashard.storage_backend as sb

        self._saved["env"] = {k: os.environ.get(k) for k in (
            "DATASHARD_STORAGE_TYPE", "DATASHARD_S3_BUCKET", "DATASHARD_S3_PREFIX",
            "DATASHARD_S3_USE_CONDITIONAL_WRITES", "DATASHARD_S3_ENDPOINT",
            "DATASHARD_S3_ACCESS_KEY", "DATASHARD_S3_SECRET_KEY")}
        os.environ["DATASHARD_STORAGE_TYPE"] = "s3"
        os.environ["DATASHARD_S3_BUCKET"] = self.s3.bucket
        os.environ["DATASHARD_S3_PREFIX"] = self.env_prefix
        os.environ["DATASHARD_S3_USE_CONDITIONAL_WRITES"] = "true" if self.cas else "false"
        for k in ("DATASHARD_S3_ENDPOINT", "DATASHARD_S3_ACCESS_KEY", "DATASHARD_S3_SECRET_KEY"):
            os.environ.pop(k, None)
        self._saved["boto3"] = sb.boto3
        sb.boto3 = _FakeBoto3(self.s3)
        self._saved["afs"] = dops.DataFileManager._get_arrow_filesystem
        self.arrow_fs = make_arrow_fs(self.s3)
        afs = self.arrow_fs
        s3cls = sb.S3StorageBackend

        def _get_fs(dfm: Any) -> Any:
            return afs if isinstance(dfm.storage, s3cls) else None

        dops.DataFileManager._get_arrow_filesystem = _get_fs
        return self

    def __exit__(self, *a: Any) -> None:
        import os

        import datashard.data_operations as dops
        import datashard.storage_backend as sb

        for k, v in self._saved["env"].items():
            if v is None:
                os.environ.pop(k, None)
            else:
                os.environ[k] = v
        sb.boto3 = self._saved["boto3"]
        dops.DataFileManager._get_arrow_filesystem = self._saved["afs"]
