"""C13 - skipping files by their stored column bounds never changes an answer.

Three exhaustively enumerated parts (no sampling; `seed` only rotates the
order of the worker payloads):

(a) decision  - for every column type, every file value multiset up to a size
    bound over {NULL, NaN, a<b<c}, every operator and every literal class:
    bounds are produced by the REAL `DataFileManager._compute_column_bounds`
    on the Arrow table of the file, pushed through the REAL
    `FileManager._encode_bound/_decode_bound`, handed to the REAL
    `filters.prune_files_by_bounds` (-> `_file_may_match`).  Ground truth is
    the engine every scan uses: the compute expression built by
    `filters.to_pyarrow_compute_expression` evaluated on the one-file table.
    Violation: the file is skipped although a row of it satisfies the filter.
(b) roundtrip - boundary values per type are appended to a real table and the
    bounds are read back from the real manifest (`Table._get_all_data_files`):
    python type and value must equal the true min / max of the column.
(c) e2e       - small multi-file tables: `scan` / `scan_batches` with pruning
    versus the same call with `datashard.filters.prune_files_by_bounds`
    replaced by the identity.

Violation keys are structural: {part, op, file_class, literal_class, nan,
types}.  `file_class` is the number of distinct non-NULL, non-NaN values of
the skipped file (no_values / single / range), `literal_class` the literal's
position relative to the file's decoded [min, max] (for in/not_in sets a
coarse alphabet: in_range, out_of_range, nan, null, wrongtype, inexact32),
`nan` says which side holds a NaN, `types` is the (sorted, '+'-joined) set of
column types for which this structural scenario failed in this run.  An
unsound case that contains a simpler unsound case (fewer file symbols, a
singleton instead of a pair set, the bare comparison instead of the
conjunction) is reported under the simpler case's key.
"""
from __future__ import annotations

import datetime as dt
import itertools
import math
import os
import struct
from typing import Any, Callable, Dict, Iterable, List, Optional, Tuple

from dsmc.report import HarnessError, Report, pmap
from dsmc.tables import fresh_dir, use_local

PROP = "C13"


def _f32(x: float) -> float:
    return struct.unpack("f", struct.pack("f", x))[0]


NAN = float("nan")
UTC = dt.timezone.utc

# ---------------------------------------------------------------------------
# value domains.  sym: a<b<c are the file values; lits: literal classes
# (absolute position w.r.t. a,b,c); wrong: wrong-type literals; other: the
# constant held by the second column "o" (same type, above everything in "c").
# ---------------------------------------------------------------------------
TYPES: Dict[str, Dict[str, Any]] = {
    "long": dict(
        py=int, sym=dict(a=-3, b=2**53 + 1, c=2**53 + 3),
        lits=dict(lt_a=-4, a=-3, ab=0, b=2**53 + 1, bc=2**53 + 2, c=2**53 + 3, gt_c=2**53 + 4),
        wrong=dict(wt_str="1", wt_float=0.5, wt_bool=True), other=2**62),
    "int": dict(
        py=int, sym=dict(a=-7, b=0, c=2**31 - 2),
        lits=dict(lt_a=-8, a=-7, ab=-1, b=0, bc=5, c=2**31 - 2, gt_c=2**31 - 1),
        wrong=dict(wt_str="0", wt_float=-0.5), other=2**31 - 1),
    "double": dict(
        py=float, nan=True, sym=dict(a=-1.5, b=0.1, c=1e300),
        lits=dict(lt_a=-2.0, a=-1.5, ab=0.0, b=0.1, bc=1.0, c=1e300, gt_c=math.inf),
        wrong=dict(wt_str="0.1", wt_int=1), other=math.inf),
    "float": dict(
        py=float, nan=True, sym=dict(a=-1.5, b=_f32(0.1), c=3.0),
        lits=dict(lt_a=-2.0, a=-1.5, ab=0.0, b=_f32(0.1), bc=1.0, c=3.0, gt_c=4.0),
        # doubles that are not representable in 32 bits and round to b
        inexact=dict(b_minus=0.1, b_plus=0.1000000015),
        wrong=dict(wt_str="0.1", wt_int=1), other=2.0**100),
    "string": dict(
        py=str, sym=dict(a="10", b="9", c="é"),
        lits=dict(lt_a="1", a="10", ab="5", b="9", bc="a", c="é", gt_c="\U0001F600"),
        wrong=dict(wt_int=10, wt_bytes=b"9"), other="\U0010FFFF"),
    "boolean": dict(
        py=bool, sym=dict(a=False, b=True),
        lits=dict(a=False, b=True),
        wrong=dict(wt_int=1, wt_str="true"), other=True),
    "date": dict(
        py=dt.date, sym=dict(a=dt.date(1969, 12, 31), b=dt.date(2000, 1, 1), c=dt.date(2024, 2, 29)),
        lits=dict(lt_a=dt.date(1900, 1, 1), a=dt.date(1969, 12, 31), ab=dt.date(1970, 1, 1), b=dt.date(2000, 1, 1),
                  bc=dt.date(2010, 5, 5), c=dt.date(2024, 2, 29), gt_c=dt.date(9999, 12, 31)),
        wrong=dict(wt_datetime=dt.datetime(2000, 1, 1), wt_datetime_noon=dt.datetime(2000, 1, 1, 12, 0, 0),
                   wt_datetime_eve=dt.datetime(1969, 12, 31, 23, 59, 59), wt_str="2000-01-01", wt_int=10957),
        other=dt.date(9999, 12, 31)),
    "timestamp": dict(
        py=dt.datetime,
        sym=dict(a=dt.datetime(1969, 12, 31, 23, 59, 59, 999999), b=dt.datetime(2000, 1, 1),
                 c=dt.datetime(2024, 2, 29, 12, 0, 0, 1)),
        lits=dict(lt_a=dt.datetime(1900, 1, 1), a=dt.datetime(1969, 12, 31, 23, 59, 59, 999999),
                  ab=dt.datetime(1970, 1, 1), b=dt.datetime(2000, 1, 1), bc=dt.datetime(2000, 1, 1, 0, 0, 0, 1),
                  c=dt.datetime(2024, 2, 29, 12, 0, 0, 1), gt_c=dt.datetime(9999, 12, 31)),
        wrong=dict(wt_date=dt.date(2000, 1, 1), wt_str="2000-01-01T00:00:00", wt_int=946684800000000,
                   wt_aware=dt.datetime(2000, 1, 1, tzinfo=UTC)),
        other=dt.datetime(9999, 12, 31, 23, 59, 59)),
}
# values that lie outside every file of the catalogue: padding for long IN lists (size thresholds in the pruner)
N_FOREIGN = 39
_FOREIGN_GEN: Dict[str, Callable[[int], Any]] = {
    "long": lambda i: -(2**60) - i, "int": lambda i: -(2**31) + i, "double": lambda i: -1e300 - i * 1e290,
    "float": lambda i: -1000.0 - i, "string": lambda i: "!%03d" % i, "date": lambda i: dt.date(1800, 1, 1) + dt.timedelta(days=i),
    "timestamp": lambda i: dt.datetime(1800, 1, 1) + dt.timedelta(seconds=i),
}
for _t, _g in _FOREIGN_GEN.items():
    TYPES[_t]["foreign"] = {"f%02d" % i: _g(i) for i in range(N_FOREIGN)}
ALL_TYPES = list(TYPES)
QUICK_E2E_TYPES = ["long", "double", "float", "string"]

CMP_OPS = ["==", "!=", "<", "<=", ">", ">="]
C_ID, O_ID, K_ID = 7, 3, 1  # field ids deliberately differ from column positions


def _isnan(v: Any) -> bool:
    return isinstance(v, float) and v != v


def _schema(tname: str, schema_id: int = 1):
    from datashard import Schema

    return Schema(schema_id=schema_id, fields=[
        {"id": K_ID, "name": "k", "type": "long", "required": True},
        {"id": C_ID, "name": "c", "type": tname, "required": False},
        {"id": O_ID, "name": "o", "type": tname, "required": False},
    ])


# ---------------------------------------------------------------------------
# symbolic literals / filters
# ---------------------------------------------------------------------------
def literal_names(tname: str) -> List[str]:
    T = TYPES[tname]
    names = list(T["lits"])
    names += list(T.get("inexact", {}))
    if T.get("nan"):
        names.append("nan")
    names += list(T["wrong"])
    return names


def literal_value(tname: str, name: str) -> Any:
    T = TYPES[tname]
    if name == "null":
        return None
    if name == "nan":
        return NAN
    for d in ("lits", "inexact", "wrong", "foreign"):
        if name in T.get(d, {}):
            return T[d][name]
    raise KeyError(name)


def symbolic_filters(tname: str, part: str) -> List[Tuple]:
    """All symbolic filters of the enumerated space for one column type."""
    names = literal_names(tname)
    typed = [n for n in names if not n.startswith("wt_")]
    out: List[Tuple] = []
    for op in CMP_OPS:
        for n in names:
            out.append(("cmp", op, n))
    for n in names:
        out.append(("short", n))
    pool = names + ["null"]
    if part == "e2e":  # e2e re-checks integration, the full pair space is in (a)
        pairs = [(x, y) for x, y in itertools.combinations(pool, 2)
                 if x in ("a", "nan", "null", "b_minus") or y in ("nan", "null")]
    else:
        pairs = list(itertools.combinations(pool, 2))
    for op in ("in", "not_in"):
        out.append(("set", op, ()))
        for n in pool:
            out.append(("set", op, (n,)))
        for x, y in pairs:
            out.append(("set", op, (x, y)))
    foreign = tuple(TYPES[tname].get("foreign", {}))
    if foreign:
        # long value sets: one catalogue literal (or none) among 39 values that no file holds
        hits = [n for n in typed if n != "nan"] if part != "e2e" else ["a", "b", "c"]
        for op in ("in", "not_in"):
            out.append(("set", op, foreign))
            for n in hits:
                out.append(("set", op, foreign[:20] + (n,) + foreign[20:]))
    btw = typed if part != "e2e" else [n for n in typed if n in ("a", "ab", "b", "c", "gt_c", "nan", "b_minus")]
    for lo in btw:
        for hi in btw:
            out.append(("between", lo, hi))
    out.append(("null", "is_null"))
    out.append(("null", "is_not_null"))
    for op in CMP_OPS:
        for n in typed:
            for oop in ("==", "!="):
                out.append(("conj", op, n, oop))
    return out


def build_filter(tname: str, sf: Tuple) -> Dict[str, Any]:
    kind = sf[0]
    if kind == "cmp":
        return {"c": (sf[1], literal_value(tname, sf[2]))}
    if kind == "short":
        return {"c": literal_value(tname, sf[1])}
    if kind == "set":
        return {"c": (sf[1], [literal_value(tname, n) for n in sf[2]])}
    if kind == "between":
        return {"c": ("between", (literal_value(tname, sf[1]), literal_value(tname, sf[2])))}
    if kind == "null":
        return {"c": (sf[1], True)}
    if kind == "conj":
        return {"c": (sf[1], literal_value(tname, sf[2])), "o": (sf[3], TYPES[tname]["other"])}
    raise ValueError(sf)


def filter_op(sf: Tuple) -> str:
    if sf[0] == "cmp":
        return sf[1]
    if sf[0] == "short":
        return "=="
    if sf[0] == "set":
        return sf[1]
    if sf[0] == "between":
        return "between"
    if sf[0] == "null":
        return sf[1]
    return sf[1]  # conjunction: the operator applied to "c" (the "o" conjunct is in the detail)


def filter_literals(sf: Tuple) -> List[str]:
    if sf[0] == "cmp":
        return [sf[2]]
    if sf[0] == "short":
        return [sf[1]]
    if sf[0] == "set":
        return list(sf[2])
    if sf[0] == "between":
        return [sf[1], sf[2]]
    if sf[0] == "conj":
        return [sf[2]]
    return []


# ---------------------------------------------------------------------------
# structural classes
# ---------------------------------------------------------------------------
def file_class(symbols: Iterable[str]) -> str:
    """Distinct non-NULL, non-NaN values of the file (NaN presence is the `nan` key field)."""
    vals = {s for s in symbols if s not in ("N", "X")}
    if not vals:
        return "no_values"
    return "single" if len(vals) == 1 else "range"


def _relation(v: Any, lo: Any, hi: Any) -> str:
    if v is None:
        return "null"
    if _isnan(v):
        return "nan"
    if lo is None or hi is None:
        return "no_bounds"
    if _isnan(lo) or _isnan(hi):
        return "nan_bounds"
    try:
        if lo == hi == v:
            return "eq_single"
        if v < lo:
            return "below_min"
        if v == lo:
            return "eq_min"
        if v > hi:
            return "above_max"
        if v == hi:
            return "eq_max"
        return "inside"
    except TypeError:
        return "incomparable"


def literal_class(tname: str, sf: Tuple, lo: Any, hi: Any) -> str:
    names = filter_literals(sf)
    inexact = TYPES[tname].get("inexact", {})

    def one(n: str) -> str:
        r = _relation(literal_value(tname, n), lo, hi)
        if n.startswith("wt_"):
            return "wrongtype:" + r
        if n in inexact:
            return "inexact32:" + r
        return r

    if sf[0] == "between":
        return f"lo={one(names[0])},hi={one(names[1])}"
    if sf[0] == "set":
        # coarse alphabet; elements that are merely outside the bounds / NULL / of a foreign type are
        # only mentioned when nothing else is in the set
        coarse = set()
        for n in names:
            c = one(n)
            if c.startswith("inexact32:"):
                coarse.add("inexact32")
            elif c.startswith("wrongtype:"):
                coarse.add("wrongtype")
            elif c in ("eq_single", "eq_min", "eq_max", "inside"):
                coarse.add("in_range")
            elif c in ("below_min", "above_max", "nan_bounds", "no_bounds", "incomparable"):
                coarse.add("out_of_range")
            else:
                coarse.add(c)  # nan, null
        strong = coarse - {"out_of_range", "null", "wrongtype"}
        return "+".join(sorted(strong or coarse)) if names else "empty"
    if not names:
        return "none"
    return one(names[0])


def nan_side(symbols: Iterable[str], sf: Tuple) -> str:
    f = "X" in list(symbols)
    l = "nan" in filter_literals(sf)
    return {(False, False): "none", (True, False): "file", (False, True): "literal", (True, True): "file+literal"}[(f, l)]


def vkey(part: str, tname: str, symbols: Iterable[str], sf: Tuple, lo: Any, hi: Any, **extra: Any) -> Dict[str, Any]:
    k = {"part": part, "op": filter_op(sf), "file_class": file_class(symbols),
         "literal_class": literal_class(tname, sf, lo, hi), "nan": nan_side(symbols, sf), "type": tname}
    k.update(extra)
    return k


# ---------------------------------------------------------------------------
# helpers around the real library
# ---------------------------------------------------------------------------
def sym_value(tname: str, s: str) -> Any:
    if s == "N":
        return None
    if s == "X":
        return NAN
    return TYPES[tname]["sym"][s]


def file_symbols(tname: str) -> List[str]:
    T = TYPES[tname]
    return ["N"] + (["X"] if T.get("nan") else []) + list(T["sym"])


def multisets(tname: str, max_size: int, min_size: int = 1) -> List[Tuple[str, ...]]:
    syms = file_symbols(tname)
    out: List[Tuple[str, ...]] = []
    for n in range(min_size, max_size + 1):
        out.extend(itertools.combinations_with_replacement(syms, n))
    return out


def records_for(tname: str, symbols: Iterable[str], base: int) -> List[Dict[str, Any]]:
    other = TYPES[tname]["other"]
    return [{"k": base + i, "c": sym_value(tname, s), "o": other} for i, s in enumerate(symbols)]


def _canon(v: Any) -> Any:
    if _isnan(v):
        return "NaN"
    return v


def _canon_rows(rows: Iterable[Dict[str, Any]]) -> List[Tuple]:
    return sorted((tuple(sorted((k, repr(_canon(v))) for k, v in r.items())) for r in rows))


def _new_table(name: str, tname: str):
    from datashard import create_table

    use_local()
    return create_table(fresh_dir(name), _schema(tname))


# ---------------------------------------------------------------------------
# (a) decision table
# ---------------------------------------------------------------------------
def _decision_case(rep: Optional[Report], tname: str, symbols: Tuple[str, ...], sf: Tuple, ctx: Dict[str, Any]) -> Dict[str, Any]:
    """Run one (file multiset, filter) case; returns a result dict."""
    from datashard import filters as F

    tbl, datafile, lo, hi = ctx["files"][symbols]
    fd, exprs, cexpr, err = ctx["filters"][sf]
    res: Dict[str, Any] = {"status": "?"}
    if err is not None:
        res["status"] = "engine_rejects_filter"
        return res
    try:
        kept = F.prune_files_by_bounds([datafile], exprs, ctx["schema"])
    except Exception as e:  # pruning must never raise where the engine accepts the filter
        res.update(status="prune_raises", error=repr(e))
        return res
    may = len(kept) == 1
    try:
        n = tbl.filter(cexpr).num_rows
    except Exception as e:
        res.update(status="engine_rejects_data", may_match=may, error=type(e).__name__)
        return res
    res.update(may_match=may, matching_rows=n)
    if not may and n > 0:
        res["status"] = "UNSOUND"
    elif not may:
        res["status"] = "pruned_sound"
    elif n > 0:
        res["status"] = "kept_needed"
    else:
        res["status"] = "kept_unneeded"
    return res


def _decision_ctx(tname: str, tag: str, sizes: Tuple[int, int], only: Optional[List[Tuple[str, ...]]] = None,
                  only_filters: Optional[List[Tuple]] = None) -> Dict[str, Any]:
    import pyarrow as pa

    from datashard import filters as F
    from datashard.data_structures import DataFile, FileFormat
    from datashard.file_manager import FileManager

    t = _new_table(f"c13-dec-{tname}-{tag}", tname)
    schema = _schema(tname)
    dfm = t.file_manager.data_file_manager
    arrow_schema = dfm.create_arrow_schema(schema)
    files: Dict[Tuple[str, ...], Any] = {}
    for symbols in (only if only is not None else multisets(tname, sizes[1], sizes[0])):
        recs = records_for(tname, symbols, 0)
        tbl = pa.Table.from_pylist(recs, schema=arrow_schema)
        lb, ub = dfm._compute_column_bounds(tbl, schema)
        enc_l = {str(k): FileManager._encode_bound(v) for k, v in (lb or {}).items()}
        enc_u = {str(k): FileManager._encode_bound(v) for k, v in (ub or {}).items()}
        dec_l = {int(k): FileManager._decode_bound(v) for k, v in enc_l.items()} or None
        dec_u = {int(k): FileManager._decode_bound(v) for k, v in enc_u.items()} or None
        datafile = DataFile(file_path="data/x.parquet", file_format=FileFormat.PARQUET, partition_values={},
                            record_count=len(recs), file_size_in_bytes=1, lower_bounds=dec_l, upper_bounds=dec_u)
        files[symbols] = (tbl, datafile, (dec_l or {}).get(C_ID), (dec_u or {}).get(C_ID))
    flt: Dict[Tuple, Any] = {}
    for sf in (only_filters if only_filters is not None else symbolic_filters(tname, "decision")):
        fd = build_filter(tname, sf)
        try:
            exprs = F.parse_filter_dict(fd)
            cexpr = F.to_pyarrow_compute_expression(exprs)
            flt[sf] = (fd, exprs, cexpr, None)
        except Exception as e:
            flt[sf] = (fd, None, None, e)
    ids = {f["name"]: f["id"] for f in schema.fields}
    return {"files": files, "filters": flt, "schema": schema, "ids": ids}


def _simpler_files(symbols: Tuple[str, ...]) -> List[Tuple[str, ...]]:
    """Strictly simpler files of the enumerated space, simplest first."""
    d = tuple(sorted(set(symbols), key=symbols.index))
    cands = [tuple(x for x in d if x not in ("N", "X")), tuple(x for x in d if x != "N"),
             tuple(x for x in d if x != "X"), d]
    out: List[Tuple[str, ...]] = []
    for c in cands:
        if c and c != symbols and c not in out:
            out.append(c)
    return out


def _simpler_filters(sf: Tuple) -> List[Tuple]:
    if sf[0] == "set" and len(sf[2]) > 1:
        return [("set", sf[1], (n,)) for n in sf[2]]
    if sf[0] == "conj":
        return [("cmp", sf[1], sf[2])]
    if sf[0] == "short":
        return [("cmp", "==", sf[1])]
    return []


def _minimal(case: Tuple[Tuple[str, ...], Tuple], unsound: set) -> Tuple[Tuple[str, ...], Tuple]:
    """Attribute an unsound case to the simplest unsound case it contains (fewer file symbols,
    fewer literals) so that one defect is reported under few keys."""
    symbols, sf = case
    changed = True
    while changed:
        changed = False
        for f2 in _simpler_filters(sf):
            if (symbols, f2) in unsound:
                sf, changed = f2, True
                break
        if changed:
            continue
        for s2 in _simpler_files(symbols):
            if (s2, sf) in unsound:
                symbols, changed = s2, True
                break
    return symbols, sf


def decision_worker(payload: Tuple[str, str, int, int]) -> Dict[str, Any]:
    tname, tier, seed, max_size = payload
    rep = Report(PROP, tier, seed, "exploration")
    ctx = _decision_ctx(tname, "all", (1, max_size))
    sampled = False
    unsound: Dict[Tuple[Tuple[str, ...], Tuple], Dict[str, Any]] = {}
    for symbols in ctx["files"]:
        _tbl, _df, lo, hi = ctx["files"][symbols]
        for sf in ctx["filters"]:
            r = _decision_case(rep, tname, symbols, sf, ctx)
            rep.add("evaluations")
            rep.add("decision_cases")
            rep.add("decision_" + r["status"].lower())
            st = r["status"]
            if st in ("pruned_sound", "UNSOUND"):
                rep.nontrivial(("dec", tname, symbols, sf))
            if st == "prune_raises":
                rep.violation(vkey("decision", tname, symbols, sf, lo, hi, problem="prune_raises"),
                              {"part": "decision", "type": tname, "file": list(symbols), "filter": list(sf), "error": r.get("error")})
            if st == "UNSOUND":
                unsound[(symbols, sf)] = r
            if st == "pruned_sound" and not sampled and tname in ("double", "string") and len(symbols) >= 2 and sf[0] == "between" and sf[1] != sf[2]:
                sampled = True
                rep.sample({"part": "decision", "type": tname, "file_values": repr([sym_value(tname, s) for s in symbols]),
                            "filter": repr(ctx["filters"][sf][0]), "bounds": [repr(lo), repr(hi)], "result": r})
    keys = set(unsound)
    for case in sorted(unsound, key=lambda c: (len(c[0]), len(filter_literals(c[1])), c[1][0] != "cmp", repr(c))):
        msym, msf = _minimal(case, keys)
        _t, _d, lo, hi = ctx["files"][msym]
        symbols, sf = case
        if (msym, msf) != case:
            rep.add("decision_unsound_attributed_to_simpler_case")
        rep.violation(vkey("decision", tname, msym, msf, lo, hi),
                      {"part": "decision", "type": tname, "file": list(symbols), "filter": list(sf),
                       "filter_dict": repr(ctx["filters"][sf][0]), "file_values": repr([sym_value(tname, s) for s in symbols]),
                       "decoded_lower": repr(ctx["files"][symbols][2]), "decoded_upper": repr(ctx["files"][symbols][3]),
                       "may_match": False, "rows_matching_under_compute_engine": unsound[case]["matching_rows"]})
    rep.add("decision_file_multisets", len(ctx["files"]))
    rep.setmax(f"max_decision_filters_per_file:{tname}", len(ctx["filters"]))
    return rep.part()


# ---------------------------------------------------------------------------
# (b) manifest round trip
# ---------------------------------------------------------------------------
def _rt_cases() -> Dict[str, List[Tuple[str, List[List[Any]]]]]:
    D, TS = dt.date, dt.datetime
    return {
        "long": [("beyond_2p53", [[2**53 + 1, 2**53 + 2], [-(2**53) - 1, None]]),
                 ("negatives_extremes", [[-1, -(2**63), 5], [2**63 - 1, 0, None], [-1]]),
                 ("all_null_and_single", [[None, None], [7]])],
        "int": [("extremes", [[-1, 2**31 - 1], [-(2**31), None, 0]])],
        "double": [("fractions", [[0.1, 0.1 + 0.2], [1 / 3, -1 / 3, None]]),
                   ("infinities", [[math.inf, 1.0], [-math.inf, -1.0, None], [math.inf, -math.inf]]),
                   ("nan", [[NAN, 1.0, 2.0], [NAN], [NAN, None, -0.5]]),
                   ("extremes", [[5e-324, 1.7976931348623157e308], [2.0**53 + 2, -2.0**53], [-0.0]])],
        "float": [("f32_rounding", [[0.1, 0.2], [16777217.0, 1e-45], [-0.1]]),
                  ("nan_inf", [[NAN, 0.1], [math.inf, -math.inf], [NAN, NAN]])],
        "string": [("numeric_looking", [["10", "9"], ["010", "10", " 7"], ["1e5", "nan", "true", "null", "-1"]]),
                   ("unicode", [["é", "z", "É"], ["\U0001F600", "\uffff"], ["", "a"], ["中文", "\u0000x"]]),
                   ("json_looking", [['{"t":"int","v":5}', '{"t": "str", "v": "a"}'], ['"quoted"', "back\\slash"]]),
                   ("long_common_prefix", [["order-2024-europe-000001", "order-2024-europe-000009", "order-2024-europe-000003"],
                                           ["x" * 40 + "a", "x" * 40 + "b"], ["y" * 300, "y" * 299 + "z"],
                                           ["https://example.org/a/very/long/path/segment/0001", "https://example.org/a/very/long/path/segment/0002"]])],
        "boolean": [("bools", [[True], [False], [False, True, None], [None]])],
        "date": [("dates", [[D(1, 1, 1), D(9999, 12, 31)], [D(1969, 12, 31), D(1970, 1, 1)], [D(2024, 2, 29), None]])],
        "timestamp": [("timestamps", [[TS(1969, 12, 31, 23, 59, 59, 999999), TS(1970, 1, 1)], [TS(2024, 2, 29, 12, 0, 0, 1)],
                                      [TS(1, 1, 1), TS(9999, 12, 31, 23, 59, 59, 999999)], [TS(2000, 1, 1, 0, 0, 0, 1), None]])],
    }


def _true_minmax(tname: str, vals: List[Any]) -> Tuple[Any, Any, bool]:
    """(min, max, has_nan) over the stored non-NULL, non-NaN values."""
    xs = [v for v in vals if v is not None]
    if tname == "float":
        xs = [v if _isnan(v) else _f32(v) for v in xs]
    has_nan = any(_isnan(v) for v in xs)
    xs = [v for v in xs if not _isnan(v)]
    if not xs:
        return None, None, has_nan
    return min(xs), max(xs), has_nan


def roundtrip_worker(payload: Tuple[str, str, int]) -> Dict[str, Any]:
    tname, tier, seed = payload
    rep = Report(PROP, tier, seed, "exploration")
    py = TYPES[tname]["py"]
    for cname, files in _rt_cases()[tname]:
        t = _new_table(f"c13-rt-{tname}-{cname}", tname)
        for i, vals in enumerate(files):
            t.append_records([{"k": 100 * i + j, "c": v, "o": None} for j, v in enumerate(vals)])
        got = t._get_all_data_files()
        if len(got) != len(files):
            raise HarnessError(f"roundtrip {tname}/{cname}: {len(got)} data files for {len(files)} appends")
        for df in got:
            lbs, ubs = df.lower_bounds or {}, df.upper_bounds or {}
            klo = lbs.get(K_ID)
            if type(klo) is not int or klo % 100 != 0 or not 0 <= klo // 100 < len(files):
                rep.violation({"part": "roundtrip", "type": "long", "case": "key_column", "side": "lower", "problem": "value"},
                              {"type": tname, "case": cname, "lower_bounds": repr(lbs)})
                continue
            i = klo // 100
            vals = files[i]
            kmax = 100 * i + len(vals) - 1
            if type(ubs.get(K_ID)) is not int or ubs.get(K_ID) != kmax:
                rep.violation({"part": "roundtrip", "type": "long", "case": "key_column", "side": "upper", "problem": "value"},
                              {"type": tname, "case": cname, "upper_bounds": repr(ubs), "expected": kmax})
            tmin, tmax, has_nan = _true_minmax(tname, vals)
            for side, bound, truth in (("lower", lbs.get(C_ID), tmin), ("upper", ubs.get(C_ID), tmax)):
                rep.add("evaluations")
                rep.add("roundtrip_bounds")
                if truth is None:
                    # no non-NULL, non-NaN value: nothing to be faithful to (all-NaN files: not judged)
                    rep.add("roundtrip_unjudged_no_values")
                    if bound is not None and not (has_nan and isinstance(bound, float)):
                        rep.violation({"part": "roundtrip", "type": tname, "case": cname, "side": side, "problem": "bound_without_values"},
                                      {"values": repr(vals), "bound": repr(bound)})
                    continue
                rep.nontrivial(("rt", tname, cname, i, side))
                detail = {"part": "roundtrip", "type": tname, "case": cname, "file_index": i, "values": repr(vals),
                          "expected": repr(truth), "decoded": repr(bound), "decoded_type": type(bound).__name__}
                if bound is None:
                    rep.violation({"part": "roundtrip", "type": tname, "case": cname, "side": side, "problem": "missing"}, detail)
                elif type(bound) is not py:
                    rep.violation({"part": "roundtrip", "type": tname, "case": cname, "side": side, "problem": "type"}, detail)
                elif has_nan and _isnan(bound):
                    rep.add("roundtrip_nan_bound_accepted")
                elif bound != truth:
                    rep.violation({"part": "roundtrip", "type": tname, "case": cname, "side": side, "problem": "value"}, detail)
                else:
                    rep.add("roundtrip_exact")
        rep.add("roundtrip_tables")
        if (tname, cname) in (("long", "beyond_2p53"), ("float", "f32_rounding")):
            rep.sample({"part": "roundtrip", "type": tname, "case": cname, "files": repr(files),
                        "decoded": [[repr((f.lower_bounds or {}).get(C_ID)), repr((f.upper_bounds or {}).get(C_ID))] for f in got]})
    return rep.part()


# ---------------------------------------------------------------------------
# (c) end to end: pruned vs unpruned scans
# ---------------------------------------------------------------------------
E2E_LAYOUTS: List[Tuple[Tuple[str, ...], ...]] = [
    (("a", "X"), ("b", "c"), ("N",)),
    (("a", "a"), ("b",), ("c", "N", "c")),
    (("a", "b", "c"), ("X",), ()),
    (("a", "N", "X"), ("X", "c")),
    (("b", "b", "X"), ("b",), ("a", "c")),
    (("N", "N"), ("a",)),
    (("c", "c"), ("a", "a", "N")),
    (("b", "X", "N"), ("X", "X"), ("b", "b")),
]


def e2e_layouts(tname: str, tier: str) -> List[Tuple[Tuple[str, ...], ...]]:
    syms = set(file_symbols(tname))
    seen, out = set(), []
    lay: List[Tuple[Tuple[str, ...], ...]] = list(E2E_LAYOUTS)
    if tier == "thorough":
        lay += [(m,) for m in multisets(tname, 2)]
    for L in lay:
        # symbols the type does not have (NaN for non-floats, c for booleans) degrade to NULL
        L2 = tuple(tuple(s if s in syms else "N" for s in f) for f in L)
        if L2 not in seen:
            seen.add(L2)
            out.append(L2)
    return out


def _run_api(t: Any, api: str, fd: Dict[str, Any]) -> Tuple[str, Any]:
    try:
        if api == "scan":
            return "ok", t.scan(filter=fd)
        if api == "scan_batches":
            return "ok", [r for b in t.scan_batches(batch_size=2, filter=fd) for r in b]
        raise ValueError(api)
    except Exception as e:
        return "raise", f"{type(e).__name__}: {str(e)[:120]}"


def _e2e_table(rep: Report, tname: str, layout: Tuple[Tuple[str, ...], ...], sfs: List[Tuple], tag: str) -> None:
    from datashard import filters as F

    t = _new_table(f"c13-e2e-{tname}-{tag}", tname)
    for i, f in enumerate(layout):
        t.append_records(records_for(tname, f, 100 * i))
    files = t._get_all_data_files()
    if len(files) != len(layout):
        raise HarnessError(f"e2e {tname} {layout}: {len(files)} files")
    by_path: Dict[str, int] = {}
    for df in files:
        lb = (df.lower_bounds or {}).get(K_ID)
        if df.record_count == 0:
            idx = [i for i, f in enumerate(layout) if not f and i not in by_path.values()][0]
        elif type(lb) is int:
            idx = lb // 100
        else:
            raise HarnessError(f"e2e: cannot map data file to layout index: {df.lower_bounds}")
        by_path[df.file_path] = idx
    bounds = {by_path[df.file_path]: ((df.lower_bounds or {}).get(C_ID), (df.upper_bounds or {}).get(C_ID)) for df in files}
    orig = F.prune_files_by_bounds
    skipped: List[List[int]] = []

    def spy(data_files, expressions, schema):
        out = orig(data_files, expressions, schema)
        kept = {d.file_path for d in out}
        skipped.append(sorted(by_path[d.file_path] for d in data_files if d.file_path not in kept))
        return out

    def identity(data_files, expressions, schema):
        return data_files

    sampled = False
    lossy: Dict[Tuple[int, Tuple, str], Dict[str, Any]] = {}
    try:
        for sf in sfs:
            fd = build_filter(tname, sf)
            for api in ("scan", "scan_batches"):
                rep.add("evaluations")
                rep.add("e2e_cases")
                del skipped[:]
                F.prune_files_by_bounds = spy
                st_p, res_p = _run_api(t, api, fd)
                sk = sorted({i for s in skipped for i in s})
                F.prune_files_by_bounds = identity
                st_u, res_u = _run_api(t, api, fd)
                F.prune_files_by_bounds = orig
                if sk:
                    rep.add("e2e_cases_with_skipped_files")
                    rep.nontrivial(("e2e", tname, layout, sf, api))
                if st_u == "raise":
                    # the engine rejects this filter/data combination when every file is read
                    rep.add("e2e_unpruned_raises" if st_p == "raise" else "e2e_unpruned_raises_pruned_returns")
                    continue
                if st_p == "raise":
                    lo, hi = bounds.get(0, (None, None))
                    rep.violation(vkey("e2e", tname, [s for f in layout for s in f], sf, lo, hi, problem="pruned_scan_raises", api=api),
                                  {"part": "e2e", "type": tname, "layout": [list(f) for f in layout], "filter": list(sf), "api": api, "error": res_p})
                    continue
                if _canon_rows(res_p) == _canon_rows(res_u):
                    rep.add("e2e_equal")
                    if sk and not sampled and len(res_u) > 0 and tname in ("double", "long") and tag.startswith("0-"):
                        sampled = True
                        rep.sample({"part": "e2e", "type": tname, "layout": [list(f) for f in layout], "filter": repr(fd), "api": api,
                                    "skipped_file_indexes": sk, "rows": len(res_u)})
                    continue
                kp = sorted(r["k"] for r in res_p)
                ku = sorted(r["k"] for r in res_u)
                lost = sorted(set(ku) - set(kp))
                for fi in sorted({k // 100 for k in lost}) or [-1]:
                    detail = {"part": "e2e", "type": tname, "layout": [list(f) for f in layout], "filter": list(sf),
                              "filter_dict": repr(fd), "api": api, "skipped_file_indexes": sk, "lost_file_index": fi,
                              "file_values": repr([sym_value(tname, s) for s in layout[fi]]) if fi >= 0 else None,
                              "decoded_bounds": [repr(x) for x in bounds.get(fi, (None, None))],
                              "rows_with_pruning": repr(res_p), "rows_reading_every_file": repr(res_u)}
                    lossy[(fi, sf, api)] = detail
        for (fi, sf, api), detail in sorted(lossy.items(), key=lambda kv: (len(filter_literals(kv[0][1])), kv[0][1][0] != "cmp", repr(kv[0]))):
            msf = sf
            for f2 in _simpler_filters(sf):
                if (fi, f2, api) in lossy:
                    msf = f2
                    rep.add("e2e_loss_attributed_to_simpler_filter")
                    break
            if fi >= 0:
                lo, hi = bounds[fi]
                key = vkey("e2e", tname, layout[fi], msf, lo, hi)
            else:
                lo, hi = bounds.get(0, (None, None))
                key = vkey("e2e", tname, [s for f in layout for s in f], msf, lo, hi, problem="rows_differ_without_loss")
            rep.violation(key, detail)
    finally:
        F.prune_files_by_bounds = orig
    rep.add("e2e_tables")


def e2e_worker(payload: Tuple[str, str, int, List[Tuple[Tuple[str, ...], ...]], int]) -> Dict[str, Any]:
    tname, tier, seed, layouts, chunk = payload
    rep = Report(PROP, tier, seed, "exploration")
    sfs = symbolic_filters(tname, "e2e")
    rep.setmax(f"max_e2e_filters_per_table:{tname}", len(sfs))
    for n, layout in enumerate(layouts):
        _e2e_table(rep, tname, layout, sfs, f"{chunk}-{n}")
    return rep.part()


# ---------------------------------------------------------------------------
# driver
# ---------------------------------------------------------------------------
def mixed_roundtrip_worker(payload: Tuple[str, int]) -> Dict[str, Any]:
    """Columns of DIFFERENT types whose bounds are equal as Python values (True == 1 == 1.0, False == 0 == 0.0,
    "1") written by one process, in both column orders: every decoded bound must carry its own column's type."""
    from datashard import Schema, create_table

    tier, seed = payload
    rep = Report(PROP, tier, seed, "exploration")
    cols = [("b", "boolean", bool), ("d", "double", float), ("i", "long", int), ("s", "string", str),
            ("f", "float", float), ("n", "int", int)]
    rows = [[{"b": True, "d": 1.0, "i": 1, "s": "1", "f": 1.0, "n": 1}],
            [{"b": False, "d": 0.0, "i": 0, "s": "0", "f": 0.0, "n": 0}],
            [{"b": True, "d": 1.0, "i": 1, "s": "True", "f": 1.0, "n": 1}, {"b": False, "d": 0.0, "i": 0, "s": "0.0", "f": 0.0, "n": 0}]]
    for order_name, order in (("bool_first", cols), ("bool_last", list(reversed(cols)))):
        use_local()
        fields = [{"id": 10 + j, "name": n, "type": t, "required": False} for j, (n, t, _py) in enumerate(order)]
        t = create_table(fresh_dir(f"c13-mixed-{order_name}"), Schema(schema_id=1, fields=fields))
        for recs in rows:
            t.append_records(recs)
        for fi, df in enumerate(t._get_all_data_files()):
            for j, (n, tn, py) in enumerate(order):
                for side, bounds in (("lower", df.lower_bounds or {}), ("upper", df.upper_bounds or {})):
                    rep.add("evaluations")
                    rep.add("roundtrip_bounds_mixed_types")
                    b = bounds.get(10 + j)
                    vals = [r[n] for r in rows[fi]]
                    truth = (min if side == "lower" else max)(vals)
                    rep.nontrivial(("rt-mixed", order_name, fi, n, side))
                    if type(b) is not py or b != truth:
                        rep.violation({"part": "roundtrip", "type": tn, "case": "equal_valued_bounds_of_other_types", "side": side,
                                       "problem": "type" if type(b) is not py else "value"},
                                      {"column_order": order_name, "column": n, "values": repr(vals), "decoded": repr(b),
                                       "decoded_type": type(b).__name__, "expected": repr(truth)})
    return rep.part()


def large_roundtrip_worker(payload: Tuple[str, int]) -> Dict[str, Any]:
    """(b, batched writes) append_records hands the records to the file writer in slices of 1000: every size at and
    around the slice boundaries x every placement of the smallest and the largest value on a slice edge - the recorded
    bounds must be those of the whole file (an end-to-end pruned scan is compared with the unpruned one as well)."""
    import datashard.filters as F

    tier, seed = payload
    rep = Report(PROP, tier, seed, "exploration")
    sizes = (1000, 1001, 2001) if tier == "quick" else (999, 1000, 1001, 2000, 2001, 3001)
    edges = (0, 999, 1000, 1999, 2000, 3000)
    for n in sizes:
        pos = [p for p in edges if p < n] + ([n - 1] if n - 1 not in edges else [])
        for pmin in pos:
            for pmax in pos:
                if pmin == pmax:
                    continue
                t = _new_table(f"c13-large-{n}-{pmin}-{pmax}", "long")
                vals = [0] * n
                vals[pmin], vals[pmax] = -5, 5
                t.append_records([{"k": j, "c": v, "o": None} for j, v in enumerate(vals)])
                dfs = t._get_all_data_files()
                if len(dfs) != 1:
                    raise HarnessError(f"large roundtrip: {len(dfs)} files")
                lbs, ubs = dfs[0].lower_bounds or {}, dfs[0].upper_bounds or {}
                got = (lbs.get(C_ID), ubs.get(C_ID), lbs.get(K_ID), ubs.get(K_ID))
                rep.add("evaluations")
                rep.add("roundtrip_bounds_batched_files")
                rep.nontrivial(("rt-large", n, pmin, pmax))
                if got != (-5, 5, 0, n - 1):
                    rep.violation({"part": "roundtrip", "type": "long", "case": "file_written_in_several_batches", "side": "both",
                                   "problem": "value"},
                                  {"rows": n, "position_of_min": pmin, "position_of_max": pmax,
                                   "decoded(c_lo,c_hi,k_lo,k_hi)": repr(got), "expected": repr((-5, 5, 0, n - 1))})
                for fd in ({"c": ("==", -5)}, {"c": (">", 0)}, {"k": ("<", 1)}):
                    pruned = _canon_rows(t.scan(filter=fd))
                    real = F.prune_files_by_bounds
                    F.prune_files_by_bounds = lambda files, *a, **k: list(files)
                    try:
                        full = _canon_rows(t.scan(filter=fd))
                    finally:
                        F.prune_files_by_bounds = real
                    rep.add("evaluations")
                    if len(full) != 1:
                        raise HarnessError(f"large roundtrip: unpruned scan {fd} returned {len(full)} rows")
                    if pruned != full:
                        rep.violation({"part": "e2e", "type": "long", "case": "file_written_in_several_batches", "problem": "rows_lost"},
                                      {"rows": n, "position_of_min": pmin, "position_of_max": pmax, "filter": repr(fd),
                                       "pruned_rows": len(pruned), "unpruned_rows": len(full)})
    return rep.part()


def prebuilt_worker(payload: Tuple[str, int]) -> Dict[str, Any]:
    """(c, pre-built files) parquet files written outside the library and registered through append_files with a bare
    DataFile (no bounds, no NULL counts): several row groups, one of them holding a value so long that the parquet
    writer records no min/max for it, NULLs in another.  Whatever statistics the library derives or does without,
    the pruned scan must equal the unpruned one for every filter of the list."""
    import pyarrow as pa
    import pyarrow.parquet as pq

    import datashard.filters as F
    from datashard import DataFile, FileFormat, Schema, create_table

    tier, seed = payload
    rep = Report(PROP, tier, seed, "exploration")
    big = "zulu-" + "x" * 6000
    layouts = {
        "two_row_groups_one_without_stats": [[(1, "alpha"), (2, "charlie")], [(3, "mike"), (4, big), (5, None)]],
        "nulls_only_in_second_group": [[(1, "alpha"), (2, "bravo")], [(3, None), (4, None)]],
        "single_group_with_nulls": [[(1, None), (2, "kilo"), (3, None)]],
    }
    filters = [{"c": ("==", "mike")}, {"c": (">=", "mike")}, {"c": (">", "d")}, {"c": ("<", "b")}, {"c": ("in", ["mike", "kilo"])},
               {"c": ("is_null", True)}, {"c": ("is_not_null", True)}, {"c": ("==", big)}, {"c": ("!=", "alpha")},
               {"k": (">=", 3)}, {"c": ("between", ("l", "n"))}]
    for lname, groups in layouts.items():
        for registrar in ("append_files", "table_append_data"):
            use_local()
            root = fresh_dir(f"c13-prebuilt-{lname}-{registrar}")
            t = create_table(root, Schema(schema_id=1, fields=[
                {"id": K_ID, "name": "k", "type": "long", "required": True},
                {"id": C_ID, "name": "c", "type": "string", "required": False}]))
            t.append_records([{"k": 100, "c": "own"}])
            rows = [r for g in groups for r in g]
            tbl = pa.table({"k": pa.array([r[0] for r in rows], pa.int64()), "c": pa.array([r[1] for r in rows], pa.string())},
                           schema=pa.schema([pa.field("k", pa.int64(), nullable=False), pa.field("c", pa.string())]))
            os.makedirs(os.path.join(root, "data"), exist_ok=True)
            path = os.path.join(root, "data", "prebuilt.parquet")
            pq.write_table(tbl, path, row_group_size=len(groups[0]))
            df = DataFile(file_path="/data/prebuilt.parquet", file_format=FileFormat.PARQUET, partition_values={},
                          record_count=len(rows), file_size_in_bytes=os.path.getsize(path))
            if registrar == "append_files":
                with t.new_transaction() as tx:
                    tx.append_files([df])
            else:
                t.append_data([df])
            for fd in filters:
                rep.add("evaluations")
                rep.add("prebuilt_file_scans")
                rep.nontrivial(("prebuilt", lname, registrar, repr(fd)))
                try:
                    pruned: Any = _canon_rows(t.scan(filter=fd))
                except Exception as e:  # noqa
                    pruned = f"raised {type(e).__name__}"
                real = F.prune_files_by_bounds
                F.prune_files_by_bounds = lambda files, *a, **k: list(files)
                try:
                    try:
                        full: Any = _canon_rows(t.scan(filter=fd))
                    except Exception as e:  # noqa
                        full = f"raised {type(e).__name__}"
                finally:
                    F.prune_files_by_bounds = real
                if pruned != full:
                    rep.violation({"part": "e2e", "type": "string", "case": "prebuilt_file_without_statistics",
                                   "problem": "rows_lost" if not isinstance(pruned, str) else "pruned_scan_raises"},
                                  {"layout": lname, "registered_through": registrar, "filter": repr(fd)[:120],
                                   "pruned": repr(pruned)[:160], "unpruned": repr(full)[:160]})
    return rep.part()


def _worker(payload: Tuple) -> Dict[str, Any]:
    kind = payload[0]
    if kind == "prebuilt":
        return prebuilt_worker(payload[1:])
    if kind == "rtlarge":
        return large_roundtrip_worker(payload[1:])
    if kind == "dec":
        return decision_worker(payload[1:])
    if kind == "rt":
        return roundtrip_worker(payload[1:])
    if kind == "rtmix":
        return mixed_roundtrip_worker(payload[1:])
    return e2e_worker(payload[1:])


def _aggregate_types(rep: Report) -> None:
    """One key per structural scenario: fold the per-type keys into `types`."""
    import json

    groups: Dict[str, Dict[str, Any]] = {}
    for v in rep.violations.values():
        key = dict(v["key"])
        if key.get("part") == "roundtrip":
            groups[json.dumps(key, sort_keys=True)] = v
            continue
        tname = key.pop("type", "?")
        g = json.dumps(key, sort_keys=True)
        if g not in groups:
            groups[g] = {"key": key, "detail": v["detail"], "count": 0, "_types": set()}
        groups[g]["count"] += v["count"]
        groups[g]["_types"].add(tname)
    out: Dict[str, Dict[str, Any]] = {}
    for g, v in groups.items():
        if "_types" in v:
            v["key"]["types"] = "+".join(sorted(v.pop("_types")))
        out[json.dumps(v["key"], sort_keys=True)] = v
    rep.violations = out


def run(tier: str, seed: int) -> Report:
    rep = Report(PROP, tier, seed, "exploration")
    max_size = 2 if tier == "quick" else 3
    payloads: List[Tuple] = []
    for tname in ALL_TYPES:
        payloads.append(("dec", tname, tier, seed, max_size))
        payloads.append(("rt", tname, tier, seed))
    payloads.append(("rtmix", tier, seed))
    payloads.append(("rtlarge", tier, seed))
    payloads.append(("prebuilt", tier, seed))
    e2e_types = QUICK_E2E_TYPES if tier == "quick" else ALL_TYPES
    per = 2 if tier == "quick" else 3
    for tname in e2e_types:
        lays = e2e_layouts(tname, tier)
        for c in range(0, len(lays), per):
            payloads.append(("e2e", tname, tier, seed, lays[c:c + per], c))
    # big jobs first; the seed only rotates the order
    payloads.sort(key=lambda p: (0 if p[0] == "dec" else 1 if p[0] == "e2e" else 2))
    if payloads:
        r = seed % len(payloads)
        payloads = payloads[r:] + payloads[:r]
    for part in pmap("checks.c13", "_worker", payloads):
        rep.merge(part)
    _aggregate_types(rep)
    rep.cov["exhaustive"] = not rep.caps
    rep.cov["decision_max_file_multiset_size"] = max_size
    rep.cov["types_decision_and_roundtrip"] = ALL_TYPES
    rep.cov["types_e2e"] = e2e_types
    rep.cov["rule"] = (
        "(a) decision: column type x every file value multiset of size 1..%d over {NULL, NaN (float/double), a<b<c} x every filter "
        "of the symbolic catalogue (6 comparisons and {c: v} x every literal class {below a, a, between a and b, b, between b and c, c, "
        "above c, NaN, doubles that round to b in 32 bits, 2-4 wrong-type literals}; in/not_in x every set of <=2 literal classes incl. NULL; "
        "between x every ordered pair of typed literals; is_null/is_not_null; conjunction with a predicate on a second column) - "
        "bounds from the real _compute_column_bounds + _encode_bound/_decode_bound, decision from the real prune_files_by_bounds, truth from "
        "the real compute expression on the file's rows.  (b) roundtrip: every listed boundary file per type through a real manifest.  "
        "(c) e2e: every catalogue layout (1-3 files%s) x e2e filter catalogue x {scan, scan_batches}, pruned vs identity-pruned.  "
        "A case is non-trivial when pruning actually skips a file (a, c) or when a bound is compared with a true min/max (b); "
        "distinct = (part, type, file multiset/layout, filter[, api])" % (max_size, ", plus every 1-file table of size <=2" if tier == "thorough" else ""))
    rep.assumptions += [
        "ground truth for 'a row can satisfy the predicate' is the pyarrow compute expression built by filters.to_pyarrow_compute_expression "
        "(the engine all scan paths use); C12 judges that engine against SQL semantics, not this check",
        "when the engine rejects a filter (wrong-type literal, mixed-type set) or rejects it for the data at hand, reading every file raises; "
        "such cases are counted (decision_engine_rejects_*, e2e_unpruned_raises*) and not judged - including the case where the pruned scan "
        "returns rows because the only files that would raise were skipped",
        "min/max of a column that contains NaN is not defined by the statement: for such files a NaN-skipping min/max or a NaN bound are both "
        "accepted in the round-trip part, all-NaN / all-NULL files are not judged there; only pruning soundness is judged for them",
        "bounds for 32-bit float columns are compared with the values as stored (rounded to 32 bits)",
        "precision (files kept although no row matches) is reported as decision_kept_unneeded, never judged",
        "to_pandas/iter_pandas are not exercised (pandas is not installed); time/uuid/binary columns are outside the enumerated types",
    ]
    return rep


def replay(case: Dict[str, Any]) -> Dict[str, Any]:
    d = case.get("detail", {})
    part = d.get("part") or case["key"].get("part")
    tname = d.get("type")
    if part == "decision":
        symbols = tuple(d["file"])
        sf = _tuplify(d["filter"])
        ctx = _decision_ctx(tname, "replay", (1, 1), only=[symbols], only_filters=[sf])
        r = _decision_case(None, tname, symbols, sf, ctx)
        return {"violated": r["status"] == "UNSOUND", "result": r, "filter": repr(ctx["filters"][sf][0]),
                "bounds": [repr(ctx["files"][symbols][2]), repr(ctx["files"][symbols][3])]}
    if part == "e2e":
        rep = Report(PROP, "quick", 0, "exploration")
        layout = tuple(tuple(f) for f in d["layout"])
        _e2e_table(rep, tname, layout, [_tuplify(d["filter"])], "replay")
        return {"violated": bool(rep.violations), "violations": list(rep.violations.values())[:2]}
    if part == "roundtrip":
        p = roundtrip_worker((tname, "quick", 0))
        hit = [v for v in p["violations"].values() if v["key"] == case["key"]]
        return {"violated": bool(hit), "matching": hit[:1]}
    return {"violated": False, "error": "unknown part"}


def _tuplify(x: Any) -> Any:
    if isinstance(x, list):
        return tuple(_tuplify(v) for v in x)
    return x
