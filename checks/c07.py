"""C07 - garbage collection fails closed.

Engine E3 (DESIGN.md 2.4) on the real `Table.garbage_collect`.  Template (local
backend and CAS-S3 over FakeS3), built through the real API on a virtual clock:

  * three retained snapshots: s1 = one transaction appending files A,B (manifest
    m1), s2 = append C (m2), s3 = delete A (m1 rewritten to m1'; m1 stays the
    manifest of s1 and s2 only);
  * tx0: begin()+append_data() at T0, never committed - its marker is older than
    the 24 h in-flight timeout at collection time (abandoned);
  * two aged orphans written at T0 (a data file, a manifest);
  * at T0+20h: tx1 = begin()+append_data() (OPEN transaction: data file + marker)
    and tx2 = begin()+append_data()+the commit's own manifest write
    (`create_manifest_file(..., pre_write_hook=tx._register_inflight)`: a commit
    paused after step 3, holding a data file, a manifest and their two markers);
  * collection runs at T0+25h with the default 1 h grace: everything is older
    than the grace period, tx1/tx2 markers are 5 h old (live), tx0's is 25 h old.

Ground truth on the UNDAMAGED template (independent reader / plain os): R = files
reachable from the three snapshots + metadata json files + pointer, P = targets
named by live markers + those markers.  The fault-free run must delete exactly
{tx0 marker, tx0 data file, the two orphans}.

(a) every storage call of the fault-free collection x {raise once, raise
    persistently (every later attempt of the same call), S3: permanent
    AccessDenied}, planted before the effect (dsmc.faults);
(b) every metadata-plane file reachable from ANY retained snapshot (current
    metadata json, 3 manifest lists, 3 manifests) and every marker x {missing,
    zero length, truncated at every Avro structural boundary / 1,1/4,1/2,3/4,
    len-1, garbage (pseudo-random, text), swapped with each sibling}; listings of
    data / manifests / inflight returning an extra '..' path or only '..' paths;
    un-stat-able markers (each, all).  File damage is in scope only if the
    independent parser rejects the file.

Oracle: nothing in R u P is deleted - whether the run raises or completes.
"""
from __future__ import annotations

import io
import json
import os
import shutil
from typing import Any, Callable, Dict, List, Optional, Set, Tuple

from dsmc import reader
from dsmc.env import ENV
from dsmc.faults import Call, FaultPlan, os_error, path_class, s3_permanent, s3_transient
from dsmc.report import HarnessError, Report, pmap
from dsmc.tables import fresh_dir, row, schema, use_local

PROP = "C07"
LEVEL = "fault_enumeration"
S3_NAME = "tbl"
GRACE_MS = 3600_000
TIMEOUT_MS = 24 * 3600 * 1000
INFLIGHT = "metadata/inflight"


# ---------------------------------------------------------------------------
# template
# ---------------------------------------------------------------------------
def _fixed_len_name(name: str, total: int = 80) -> str:
    """Directory name padded so that the table root has the same length in every process: the root is stored
    in the metadata json ("location"), and its length would otherwise move every offset-based damage."""
    from dsmc.report import scratch_root

    pad = total - len(os.path.join(scratch_root(), name))
    if pad < 0:
        raise HarnessError("scratch path too long for a fixed-length table root")
    return name + "_" * pad


class World:
    def __init__(self, backend: str, tag: str, orphan_tip: bool = False, extra_appends: int = 0,
                 leading_slash: bool = False):
        from datashard import create_table
        from datashard.data_structures import ManifestContent

        self.backend = backend
        self.use_early = False
        self.orphan_tip = orphan_tip
        self.s3w: Any = None
        ENV.reset(0)
        if backend == "local":
            from dsmc.localfs import install_local_seams

            install_local_seams()  # file mtimes follow the virtual clock
            use_local()
            self.root = fresh_dir(_fixed_len_name(f"c07-{tag}"))
            self.location = self.root
            self.view: Any = reader.LocalView(self.root)
        else:
            from dsmc.fakes3 import S3World

            self.s3w = S3World()
            self.s3w.__enter__()
            self.location = S3_NAME
            self.view = reader.S3View(self.s3w.s3, S3_NAME)
        t = create_table(self.location, schema())
        with t.new_transaction() as tx:
            tx.append_data([row(i) for i in range(0, 2)])
            tx.append_data([row(i) for i in range(10, 12)])
        t.append_records([row(i) for i in range(20, 22)])
        first = t._get_all_data_files()[0].file_path
        with t.new_transaction() as tx:
            tx.delete_files([first])
        self.early: Any = None
        if extra_appends:
            # a long-lived handle that read the table BEFORE the later commits (made through another handle)
            self.early = True
            # the store as it is now (before the later commits): a handle is primed on it before every run
            self.old_files = {rel: self.view.get(rel) for rel in sorted(self.view.list())}
            self.old_mtimes = ({rel: self.view.mtime(rel) for rel in self.old_files} if backend == "local" else None)
        for k in range(extra_appends):  # a long history: one more manifest per append (size thresholds in the collector)
            t.append_records([row(100 + k)])
        st = t.storage
        if orphan_tip:
            # leftover of a committer that died between writing its metadata file and flipping the pointer:
            # an uncommitted HIGHER version in which the two older snapshots are already expired.  The pointer
            # does not name it, so it must never take part in the reachability decision.
            ptr = st.read_file("metadata.version-hint.text").decode().strip()
            md = json.loads(st.read_file(f"metadata/{ptr}").decode())
            ver = int(ptr[1:ptr.index("-")])
            cur = md["current_snapshot_id"]
            md["snapshots"] = [x for x in md["snapshots"] if x["snapshot_id"] == cur]
            md["snapshot_log"] = [x for x in md["snapshot_log"] if x["snapshot_id"] == cur]
            md["last_updated_ms"] += 1
            st.write_file(f"metadata/v{ver + 1}-0badc0de.metadata.json", json.dumps(md, indent=2).encode())
        if leading_slash:
            # the metadata names its manifest lists with a leading slash ('/metadata/manifests/...', a spelling the
            # library accepts everywhere and older writers produced); same files, same pointer
            ptr = st.read_file("metadata.version-hint.text").decode().strip()
            md = json.loads(st.read_file(f"metadata/{ptr}").decode())
            for sn in md["snapshots"]:
                sn["manifest_list"] = "/" + sn["manifest_list"].lstrip("/")
            st.write_file(f"metadata/{ptr}", json.dumps(md, indent=2).encode())
            t = __import__("datashard").load_table(self.location)
            st = t.storage
        tx0 = t.new_transaction().begin()
        tx0.append_data([row(90)])
        some_data = [p for p in sorted(st.list_files("data"))][0]
        some_manifest = [p for p in sorted(st.list_files("metadata/manifests")) if "manifest_list_" not in p][0]
        st.write_file("data/orphan_0001.parquet", st.read_file(some_data))
        st.write_file("metadata/manifests/manifest_1600000000000000_0badf00d.avro", st.read_file(some_manifest))
        ENV.advance(20 * 3600)
        tx1 = t.new_transaction().begin()
        tx1.append_data([row(91)])
        tx2 = t.new_transaction().begin()
        tx2.append_data([row(92)])
        files2 = [f for op in tx2._operations if op["type"] == "append_files" for f in op["files"]]
        m = t.file_manager.create_manifest_file(files2, ManifestContent.DATA, 424242, sequence_number=4,
                                                pre_write_hook=tx2._register_inflight)
        self.keep = (t, tx0, tx1, tx2)  # the transactions stay open for the life of the world
        ENV.advance(5 * 3600)
        self.env0 = ENV.snapshot()

        # ---- ground truth (independent reader) ------------------------------------
        self.before: Dict[str, bytes] = {rel: self.view.get(rel) for rel in sorted(self.view.list())}
        ts = reader.TableState(self.view, rows=False)
        if ts.errors or len(ts.snaps) != 3 + extra_appends:
            raise HarnessError(f"template unreadable / not {3 + extra_appends} snapshots: {ts.errors}")
        self.ts = ts
        self.R: Set[str] = set(ts.reachable())
        self.M: Set[str] = {r for r in self.before if path_class(r) in ("metadata", "pointer")}
        self.markers: Dict[str, Dict[str, Any]] = {}
        for rel in self.before:
            if rel.startswith(INFLIGHT + "/"):
                age_ms = (ENV.clock - self.view.mtime(rel)) * 1000
                tgt = reader.norm(json.loads(self.before[rel].decode())["file_path"])
                self.markers[rel] = {"target": tgt, "live": age_ms < TIMEOUT_MS}
        self.P: Set[str] = set()
        for mk, info in self.markers.items():
            if info["live"]:
                self.P |= {mk, info["target"]}
        self.live = self.R | self.M | self.P
        dead = [mk for mk, i in self.markers.items() if not i["live"]]
        self.expected_D = {"data/orphan_0001.parquet", "metadata/manifests/manifest_1600000000000000_0badf00d.avro",
                           dead[0], self.markers[dead[0]]["target"]}
        sids = ts.snapshot_ids()
        own = set(ts.snaps[sids[0]].manifests) - set(ts.snaps[sids[2]].manifests)
        if (len(dead) != 1 or len(self.markers) != 4 or reader.norm(m.manifest_path) not in self.P or not own
                or not self.expected_D <= set(self.before) or self.expected_D & self.live):
            raise HarnessError("template does not have the designed shape")
        for rel in self.P | self.R:
            if (ENV.clock - self.view.mtime(rel)) * 1000 <= GRACE_MS:
                raise HarnessError(f"{rel} is younger than the grace period")
        if backend == "local":
            self.mtimes = {rel: self.view.mtime(rel) for rel in self.before}
        else:
            self.state = self.s3w.s3.clone_state()

    # ---- store ----------------------------------------------------------------------
    def restore(self) -> None:
        ENV.restore(self.env0)
        if self.backend == "local":
            shutil.rmtree(self.root, ignore_errors=True)
            for rel, data in self.before.items():
                self.put(rel, data, self.mtimes[rel])
            os.makedirs(os.path.join(self.root, INFLIGHT), exist_ok=True)
        else:
            self.s3w.s3.load_state(self.state)
            self.s3w.s3.gates, self.s3w.s3.after = [], []

    def put(self, rel: str, data: Optional[bytes], mtime: Optional[float] = None) -> None:
        if self.backend == "local":
            p = os.path.join(self.root, rel)
            if data is None:
                os.remove(p)
                return
            mt = mtime if mtime is not None else os.path.getmtime(p)
            os.makedirs(os.path.dirname(p), exist_ok=True)
            with open(p, "wb") as f:
                f.write(data)
            os.utime(p, (mt, mt))
        else:
            from dsmc.fakes3 import Obj

            key = f"{S3_NAME}/{rel}"
            if data is None:
                del self.s3w.s3.objs[key]
            else:
                self.s3w.s3.objs[key] = Obj(data, self.s3w.s3.objs[key].lm if mtime is None else mtime)

    def attach(self, plan: FaultPlan) -> Any:
        return plan.local(self.root) if self.backend == "local" else plan.s3(self.s3w.s3, S3_NAME)

    def close(self) -> None:
        if self.s3w is not None:
            self.s3w.__exit__(None, None, None)

    # ---- one collection ---------------------------------------------------------------
    def collect(self, plan: Optional[FaultPlan] = None, prepare: Optional[Callable[[Any], None]] = None,
                damage: Optional[Callable[[], None]] = None) -> Dict[str, Any]:
        """Restore the template, open a fresh handle, plant damage, run garbage_collect(1 h)."""
        from datashard import load_table

        if self.use_early and self.early and self.backend == "local":
            # a long-lived handle: it last read the table 18 commits ago (primed on the old store), then the store moves
            # on underneath it (commits made through other handles) and the collection runs through that handle
            ENV.restore(self.env0)
            shutil.rmtree(self.root, ignore_errors=True)
            for rel, data in self.old_files.items():
                self.put(rel, data, self.old_mtimes[rel])
            t = load_table(self.location)
            t.metadata_manager.refresh()
            t.scan()
            self.restore()
        else:
            self.restore()
            t = load_table(self.location)
        if damage is not None:
            damage()
        if prepare is not None:
            prepare(t)
        plan = plan or FaultPlan()
        exc: Optional[BaseException] = None
        stats = None
        with self.attach(plan):
            try:
                stats = t.garbage_collect(GRACE_MS)
            except HarnessError:
                raise
            except Exception as e:  # noqa
                exc = e
        out = {"raised": type(exc).__name__ if exc is not None else None, "error": str(exc)[:160] if exc else None,
               "stats": stats, "plan": plan}
        if exc is not None and plan.fired and not plan.persistent and damage is None:
            # the fault is over: the SAME handle collects again on healthy storage (a periodic job's next run) - what
            # it remembers from the aborted run must not turn into deletions
            try:
                t.garbage_collect(GRACE_MS)
                out["second_run"] = "completed"
            except HarnessError:
                raise
            except Exception as e2:  # noqa
                out["second_run"] = "raised " + type(e2).__name__
        return out

    def judge(self, planted: Optional[Dict[str, Optional[bytes]]] = None) -> Dict[str, Any]:
        """Compare the store with the template. `planted`: {file: bytes the harness put there / None = removed}."""
        want = dict(self.before)
        for rel, data in (planted or {}).items():
            if data is None:
                del want[rel]
            else:
                want[rel] = data
        after = {rel: self.view.get(rel) for rel in self.view.list()}
        D = {r for r in want if r not in after}
        changed = {r for r in after if r not in want or after[r] != want[r]}
        if changed:
            raise HarnessError(f"collection created / modified files: {sorted(changed)}")
        # a marker that is still on storage after the run (e.g. because it could not be deleted) keeps its target
        # protected - whatever its age: a collector that failed to remove a marker must not act as if it had
        kept_protection = {info["target"] for mk, info in self.markers.items() if mk in after and mk in want}
        return {"D": D, "lost_protected": sorted(D & (self.P | kept_protection)),
                "lost_reachable": sorted(D & (self.R | self.M) - self.P)}


# ---------------------------------------------------------------------------
# classification of a storage call = which input of the reachability decision
# ---------------------------------------------------------------------------
def input_class(w: World, c: Call) -> str:
    cls, fn, rel = c.cls, c.fn, c.path.rstrip("/")
    if cls == "inflight_dir":
        return "inflight_listing"
    if cls == "marker":
        if fn in ("getmtime", "HEAD"):
            return "marker_stat"
        return "marker_read" if fn in ("open", "GET") else "marker_delete"
    if cls in ("pointer", "metadata", "metadata_dir", "manifest_list"):
        return cls
    if cls == "data_dir":
        return "data_listing"
    if cls == "manifests_dir":
        return "manifests_listing"
    if cls == "manifest" and rel in w.R:
        return "manifest"
    if cls in ("manifest", "data"):
        return "orphan_stat" if fn in ("getmtime", "HEAD") else "orphan_delete"
    return "other"


# ---------------------------------------------------------------------------
# Avro structure (for truncation points)
# ---------------------------------------------------------------------------
def _varint(b: bytes, i: int) -> Tuple[int, int]:
    n = s = 0
    while True:
        c = b[i]
        i += 1
        n |= (c & 0x7F) << s
        s += 7
        if not c & 0x80:
            return (n >> 1) ^ -(n & 1), i


def avro_cuts(b: bytes) -> List[int]:
    if b[:4] != b"Obj\x01":
        raise HarnessError("not an avro container")
    i = 4
    while True:
        cnt, i = _varint(b, i)
        if cnt == 0:
            break
        if cnt < 0:
            _sz, i = _varint(b, i)
            cnt = -cnt
        for _ in range(cnt):
            ln, i = _varint(b, i)
            i += ln
            ln, i = _varint(b, i)
            i += ln
    hdr_end = i + 16
    cuts = {1, 3, 4, hdr_end // 2, hdr_end - 16, hdr_end - 1, hdr_end}
    i = hdr_end
    while i < len(b):
        st = i
        _cnt, i = _varint(b, i)
        sz, i = _varint(b, i)
        cuts |= {st + 1, i, i + sz // 2, i + sz - 1, i + sz, i + sz + 15}
        i += sz + 16
    if i != len(b):
        raise HarnessError("avro structure walk does not end at EOF")
    return sorted(cuts)


class _OneFile:
    def __init__(self, data: bytes):
        self.data = data

    def get(self, rel: str) -> Optional[bytes]:
        return self.data


def independent_parse(cls: str, data: Optional[bytes]) -> Tuple[str, Any]:
    if data is None:
        return ("missing", None)
    try:
        if cls == "metadata":
            md = reader.read_metadata(_OneFile(data), "f")
            md.pop("__file__", None)
            return ("ok", json.dumps(md, sort_keys=True))
        if cls == "marker":
            try:
                p = json.loads(data.decode("utf-8"))
                if not isinstance(p, dict) or not isinstance(p.get("file_path"), str) or not p["file_path"]:
                    raise ValueError("no file_path")
                return ("ok", p["file_path"])
            except Exception as e:
                raise reader.ReadError(str(e)) from e
        return ("ok", repr(reader.read_manifest(_OneFile(data), "f")))  # same avro container parse for lists
    except reader.ReadError:
        return ("unparseable", None)


def _garbage(kind: str, n: int) -> bytes:
    import hashlib

    if kind == "text":
        return (b"this is neither avro nor json\n" * (n // 30 + 1))[:max(n, 30)]
    out = b""
    i = 0
    while len(out) < max(n, 64):
        out += hashlib.sha256(b"c07-garbage-%d" % i).digest()
        i += 1
    return out[:max(n, 64)]


def file_damages(w: World) -> List[Tuple[str, str, Tuple[Any, ...]]]:
    """(file, file class, spec) for every metadata-plane file reachable from any retained snapshot and every marker."""
    md = "metadata/" + w.ts.md["__file__"]
    lists = sorted({sv.mlist for sv in w.ts.snaps.values()})
    mans = sorted({m for sv in w.ts.snaps.values() for m in sv.manifests})
    targets = [(md, "metadata")] + [(x, "manifest_list") for x in lists] + [(x, "manifest") for x in mans] + [
        (x, "marker") for x in sorted(w.markers)]
    older = sorted(r for r in w.M if r != md and path_class(r) == "metadata")
    sibs = {"metadata": older[-1:], "manifest_list": lists, "manifest": mans, "marker": sorted(w.markers)}
    out: List[Tuple[str, str, Tuple[Any, ...]]] = []
    for rel, cls in targets:
        raw = w.before[rel]
        n = len(raw)
        cuts = set(avro_cuts(raw)) if cls in ("manifest", "manifest_list") else set()
        cuts |= {1, n // 4, n // 2, 3 * n // 4, n - 1}
        # a grid over the whole file plus every offset of the tail: some parsers treat particular tail cuts
        # (inside the last block, inside the sync marker) differently from a cut in the middle
        cuts |= set(range(8, n, 16)) | set(range(max(1, n - 48), n))
        out.append((rel, cls, ("missing",)))
        out.append((rel, cls, ("truncate", 0)))
        out += [(rel, cls, ("truncate", c)) for c in sorted(cuts) if 0 < c < n]
        out += [(rel, cls, ("garbage", "random")), (rel, cls, ("garbage", "text"))]
        out += [(rel, cls, ("sibling", s)) for s in sibs[cls] if s != rel]
    return out


def apply_spec(w: World, rel: str, spec: Tuple[Any, ...]) -> Optional[bytes]:
    raw = w.before[rel]
    if spec[0] == "missing":
        return None
    if spec[0] == "truncate":
        return raw[:spec[1]]
    if spec[0] == "garbage":
        return _garbage(spec[1], len(raw))
    if spec[0] == "sibling":
        return w.before[spec[1]]
    raise HarnessError(f"bad spec {spec!r}")


def damage_name(spec: Tuple[Any, ...]) -> str:
    if spec[0] == "truncate":
        return "zero_length" if spec[1] == 0 else "truncated"
    return {"missing": "missing", "garbage": "garbage", "sibling": "sibling_swap"}[spec[0]]


# ---------------------------------------------------------------------------
# the two parts
# ---------------------------------------------------------------------------
class Runner:
    def __init__(self, rep: Report, w: World):
        self.rep, self.w = rep, w
        self.fails: Dict[Tuple[Any, ...], Dict[str, Any]] = {}
        self.causes: Dict[Tuple[str, str], Set[str]] = {}  # (part, input) -> in-scope causes enumerated

    def verdict(self, part: str, inp: str, cause: str, res: Dict[str, Any], j: Dict[str, Any], detail: Dict[str, Any]) -> str:
        rep, w = self.rep, self.w
        rep.add("evaluations")
        rep.add("distinct_nontrivial")
        self.causes.setdefault((part, inp), set()).add(cause)
        detail = dict(detail, backend=w.backend, raised=res["raised"], error=res["error"], stats=res["stats"],
                      deleted=sorted(j["D"]))
        probs = []
        if j["lost_protected"]:
            probs.append(("protected_file_deleted", j["lost_protected"]))
        if j["lost_reachable"]:
            probs.append(("reachable_file_deleted", j["lost_reachable"]))
        for prob, lost in probs:
            k = (w.backend, part, inp, cause, prob)
            if k in self.fails:
                self.fails[k]["count"] += 1
            else:
                self.fails[k] = {"count": 1, "detail": dict(detail, lost=lost,
                                                            lost_classes=sorted({path_class(x) for x in lost}))}
        if probs:
            oc = probs[0][0]
        elif res["raised"]:
            oc = "raised_nothing_deleted" if not j["D"] else (
                "raised_after_sweeping_abandoned_marker_only" if all(path_class(x) == "marker" for x in j["D"])
                else "raised_after_deleting_only_true_orphans")
            rep.add(oc)
        else:
            oc = "completed_all_protection_honoured" if j["D"] == w.expected_D else "completed_safe_fewer_deletions"
            rep.add(oc)
        rep.nontrivial((w.backend, part, inp, cause, oc))
        return oc

    # ---- (a) ---------------------------------------------------------------------------
    def part_a(self, label: str = "a") -> None:
        rep, w = self.rep, self.w
        base = w.collect()
        j = w.judge()
        if base["raised"] or j["D"] != w.expected_D:
            raise HarnessError(f"fault-free collection: {base['raised']} {base['error']} deleted {sorted(j['D'])}")
        calls = base["plan"].calls
        rep.add("storage_calls_numbered", len(calls))
        rep.sample({"backend": w.backend, "fault_free_calls": [c.label() for c in calls][:60], "deleted": sorted(j["D"]),
                    "protected": sorted(w.P), "reachable": len(w.R)})
        import errno

        # "not found" answers for something that exists (a stale directory entry, an eventually consistent store)
        kinds = [("fault_once", os_error(), False), ("fault_persistent", os_error(), True),
                 ("fault_not_found_once", os_error(errno.ENOENT), False)]
        if w.backend == "s3":
            kinds = [("fault_once", s3_transient(), False), ("fault_persistent", s3_transient("SlowDown", 503), True),
                     ("fault_permanent", s3_permanent(), True),
                     ("fault_not_found_persistent", s3_transient("NoSuchKey", 404), True)]
        for c in calls:
            inp = input_class(w, c)
            for kname, exc, persistent in kinds:
                plan = FaultPlan(at=c.key, exc=exc, persistent=persistent)
                res = w.collect(plan)
                if not plan.fired:
                    raise HarnessError(f"fault position {c.label()} not reached")
                jj = w.judge()
                oc = self.verdict(label, inp, kname, res, jj, {"call": c.label(), "call_key": [list(c.key[0]), c.key[1]],
                                                             "fault": kname, "attempts_failed": len(plan.fired)})
                if inp in ("manifest", "inflight_listing") and kname == "fault_once" and len(rep.samples) < 4:
                    rep.sample({"backend": w.backend, "call": c.label(), "fault": kname, "outcome": oc,
                                "raised": res["raised"], "deleted": sorted(jj["D"])})

    # ---- (b) ---------------------------------------------------------------------------
    def part_b(self) -> None:
        rep, w = self.rep, self.w
        for rel, cls, spec in file_damages(w):
            new = apply_spec(w, rel, spec)
            st, content = independent_parse(cls, new)
            if new == w.before[rel]:
                continue
            rep.add("damaged_files")
            dname = damage_name(spec)
            if st == "ok" or (cls == "marker" and st == "missing"):
                # parseable damage (header-only avro prefix, swapped sibling) / a marker that does not exist
                # (indistinguishable from "no transaction"): outside the statement - run, count, do not judge
                res = w.collect(damage=lambda: w.put(rel, new))
                jj = w.judge({rel: new})
                rep.add("out_of_scope_parseable" if st == "ok" else "out_of_scope_marker_absent")
                if jj["lost_protected"] or jj["lost_reachable"]:
                    rep.add("out_of_scope_live_file_deleted")
                continue
            res = w.collect(damage=lambda: w.put(rel, new))
            jj = w.judge({rel: new})
            inp = "marker_read" if cls == "marker" else cls
            oc = self.verdict("b", inp, dname, res, jj, {"file": rel, "file_class": cls, "spec": list(spec),
                                                         "independent_parser": st})
            if dname == "truncated" and len(rep.samples) < 5:
                rep.sample({"backend": w.backend, "file": rel, "spec": list(spec), "independent_parser": st, "outcome": oc,
                            "raised": res["raised"]})
        # ---- listings that return paths outside the table ---------------------------------
        base = os.path.basename(w.root) if w.backend == "local" else S3_NAME
        for prefix, inp in (("data", "data_listing"), ("metadata/manifests", "manifests_listing"), (INFLIGHT, "inflight_listing")):
            for variant in ("escaping_path_extra", "escaping_paths_all"):
                def prepare(t: Any, prefix: str = prefix, variant: str = variant) -> None:
                    real = t.storage.list_files

                    def listing(p: str) -> List[str]:
                        out = list(real(p))
                        if p.strip("/") != prefix:
                            return out
                        if variant == "escaping_path_extra":
                            return out + [f"../{base}-elsewhere/{prefix}/zz_0001.parquet"]
                        return [f"../{base}/{x}" for x in out]

                    t.storage.list_files = listing

                res = w.collect(prepare=prepare)
                self.verdict("b", inp, variant, res, w.judge(), {"listing": prefix, "variant": variant})
        # ---- markers that cannot be stat'ed ----------------------------------------------------
        for who in sorted(w.markers) + ["*"]:
            def prepare2(t: Any, who: str = who) -> None:
                real = t.storage.get_modified_time

                def mtime(p: str) -> float:
                    q = p.lstrip("/")
                    if q.startswith(INFLIGHT + "/") and (who == "*" or q == who):
                        raise OSError(5, "injected: marker cannot be stat'ed", p)
                    return real(p)

                t.storage.get_modified_time = mtime

            res = w.collect(prepare=prepare2)
            self.verdict("b", "marker_stat", "stat_raises", res, w.judge(),
                         {"marker": who, "live": w.markers[who]["live"] if who != "*" else None})


def worker(payload: Tuple[Any, ...]) -> Dict[str, Any]:
    part, tier, seed, backend = payload
    rep = Report(PROP, tier, seed, LEVEL)
    w = World(backend, f"{part}-{os.getpid()}", orphan_tip=(part == "c"), extra_appends=(18 if part in ("d", "f") else 0),
              leading_slash=(part == "e"))
    r = Runner(rep, w)
    try:
        if part == "a":
            r.part_a()
        elif part == "c":
            r.part_a(label="c")  # same fault enumeration, on a table that carries an uncommitted higher metadata version
        elif part == "e":
            r.part_b()  # the file-damage catalogue on a table whose metadata spells manifest lists with a leading slash
        elif part == "f":
            w.use_early = True  # the collection runs through a handle that last read the table 18 commits ago
            r.part_a(label="f")
        elif part == "d":
            r.part_a(label="d")  # same fault enumeration, on a table with a long history (21 snapshots, 21 manifests)
        else:
            r.part_b()
    finally:
        w.close()
    out = rep.part()
    out["fails"] = [(list(k), v) for k, v in r.fails.items()]
    out["causes"] = [(list(k), sorted(v)) for k, v in r.causes.items()]
    return out


# ---------------------------------------------------------------------------
# keys: one defect -> few keys
# ---------------------------------------------------------------------------
def collapse(fails: List[Tuple[List[Any], Dict[str, Any]]], causes: List[Tuple[List[Any], List[str]]]
             ) -> List[Tuple[Dict[str, Any], Dict[str, Any], int]]:
    """Raw failures (backend, part, input, cause, problem) -> keys {part, input, cause, problem}; `cause` becomes
    'any_fault' (a) / 'any_unparseable' (b) when every enumerated in-scope cause of that input fails."""
    allc: Dict[Tuple[str, str], Set[str]] = {}
    for (part, inp), cs in causes:
        allc.setdefault((part, inp), set()).update(cs)
    groups: Dict[Tuple[str, str, str], Dict[str, Dict[str, Any]]] = {}
    for k, v in fails:
        backend, part, inp, cause, prob = k
        e = groups.setdefault((part, inp, prob), {}).setdefault(cause, {"count": 0, "detail": v["detail"], "backends": set()})
        e["count"] += v["count"]
        e["backends"].add(backend)
    out = []
    for (part, inp, prob), g in sorted(groups.items()):
        backends = set().union(*(e["backends"] for e in g.values()))
        extra = {"backend": "s3"} if backends == {"s3"} else {}
        file_causes = {c for c in allc.get((part, inp), set()) if part == "a" or c in
                       ("missing", "zero_length", "truncated", "garbage")}
        if file_causes and file_causes <= set(g) and len(file_causes) > 1:
            members = sorted(file_causes)
            key = dict({"part": part, "input": inp, "cause": "any_fault" if part == "a" else "any_unparseable",
                        "problem": prob}, **extra)
            out.append((key, dict(g[members[0]]["detail"], causes=members, backends=sorted(backends)),
                        sum(g[m]["count"] for m in members)))
            rest = [c for c in g if c not in file_causes]
        else:
            rest = list(g)
        for c in sorted(rest):
            key = dict({"part": part, "input": inp, "cause": c, "problem": prob}, **extra)
            out.append((key, dict(g[c]["detail"], backends=sorted(g[c]["backends"])), g[c]["count"]))
    return out


def run(tier: str, seed: int) -> Report:
    rep = Report(PROP, tier, seed, LEVEL)
    backends = ["local"] if tier == "quick" else ["local", "s3"]
    pls = [(part, tier, seed, b) for b in backends for part in ("a", "b", "c", "d", "e", "f")]
    if tier == "quick":
        pls += [("a", tier, seed, "s3"), ("c", tier, seed, "s3")]  # request-level faults on the object store are cheap
    if seed:
        pls = pls[seed % len(pls):] + pls[:seed % len(pls)]
    fails: List[Any] = []
    causes: List[Any] = []
    for part in pmap("checks.c07", "worker", pls):
        fails += part.pop("fails", [])
        causes += [(tuple(k), v) for k, v in part.pop("causes", [])]
        rep.merge(part)
    for key, det, cnt in collapse(fails, causes):
        rep.violation(key, det)
        rep.violations[json.dumps(key, sort_keys=True)]["count"] = cnt
    rep.cov["exhaustive"] = not rep.caps
    rep.cov["rule"] = (
        "(a) every storage call (os-level call / S3 request) of the fault-free garbage_collect(1 h) on the template x "
        "{raise once, raise persistently, (S3) permanent AccessDenied}, fault before the effect; (b) every metadata-plane file "
        "reachable from any of the 3 retained snapshots (metadata json, 3 manifest lists, 3 manifests) and each of the 4 markers "
        "x {missing, zero length, truncation at every avro structural boundary + 1,1/4,1/2,3/4,len-1, garbage random/text, swap "
        "with each sibling}, 3 listings x 2 '..' variants, un-stat-able marker (each, all). A case is non-trivial (counted in "
        "distinct_nontrivial; distinct = (call, fault kind) / (file, damage)) when a fault was raised in the run or the "
        "independent parser rejects the damaged file; every such case is judged by D & (R | P) == {} against ground truth "
        "computed on the undamaged template")
    rep.assumptions += [
        "ground truth R (reachable from the 3 retained snapshots, plus metadata json files and the pointer) and P (targets "
        "named by markers younger than the 24 h timeout, plus those markers) come from dsmc.reader / plain os on the undamaged "
        "template; a violation is any deleted member of R | P, whether the run raised or completed",
        "the statement's disjunction 'raises without deleting any file, OR keeps the affected protection in force' is read "
        "literally: a run that raises after deleting only true orphans / sweeping the abandoned marker is accepted "
        "(raised_after_deleting_only_true_orphans, raised_after_sweeping_abandoned_marker_only); faults on stats/deletes of "
        "true orphans may be swallowed (completed_safe_fewer_deletions)",
        "file damage that the independent parser (json / fastavro) still accepts (an avro file cut exactly after its header, a "
        "swapped-in sibling) is out of scope: counted as out_of_scope_parseable (out_of_scope_live_file_deleted when the "
        "collection then deleted a live file), never judged; a marker that does not exist is indistinguishable from 'no "
        "transaction' and is not judged either",
        "damage is planted after the handle is opened and before collect(); files do not change during a collection",
        "tx2 models a commit paused between writing its manifest and its manifest list, built from the library's own "
        "create_manifest_file(pre_write_hook=tx._register_inflight); the grace period is the default 1 h, the in-flight "
        "timeout the default 24 h, all template files are older than the grace period",
    ]
    return rep


def replay(case: Dict[str, Any]) -> Dict[str, Any]:
    det, key = case.get("detail", {}), case["key"]
    rep = Report(PROP, case.get("tier", "quick"), case.get("seed", 0), LEVEL)
    backend = (det.get("backends") or [det.get("backend", "local")])[0]
    w = World(backend, f"replay-{os.getpid()}")
    r = Runner(rep, w)
    try:
        if key.get("part") == "a":
            r.part_a()
        else:
            r.part_b()
    finally:
        w.close()
    keys = [k for k, _d, _c in collapse([(list(k), v) for k, v in r.fails.items()],
                                        [(k, sorted(v)) for k, v in r.causes.items()])]
    hit = [k for k in keys if all(k.get(f) == v for f, v in key.items() if f != "backend")]
    return {"violated": bool(hit), "matching": hit[:3], "all_keys": keys[:20]}
