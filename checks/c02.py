"""C02 - readers observe only whole committed snapshots.

E1: one reader performing two successive reads through one handle with a given
read API, interleaved with 1-2 writers (append, two appends in one
transaction, delete_files, explicit rollback, commit failing at the pointer
write), at shared-storage-operation granularity, local and CAS-S3.

Oracle: the pointer-publish log gives the versions V0 (initial), V1, ... that
were current; rows(Vi) come from the independent reader.  A read invoked after
`a` publishes and returning after `b` publishes must return rows(Vi) (as
filtered/counted by the API) for some a <= i <= b, and the second read's i must
not be smaller than the first's.
"""
from __future__ import annotations

from typing import Any, Dict, List, Optional, Tuple

from botocore.exceptions import ClientError

from dsmc import reader
from dsmc.commitworld import TableWorld, outcome_of
from dsmc.env import ENV, HINT_NAME
from dsmc.report import Report, pmap
from dsmc.sched import Execution, Explorer
from dsmc.tables import row, schema

APIS = ["scan", "scan_parallel", "scan_filter", "scan_batches", "iter_records", "row_count"]
WRITERS = ["append", "append2tx", "delete_file", "replace", "append_expire", "delete_current", "rollback", "failed_commit"]


def build_template(w: TableWorld) -> None:
    from datashard import create_table

    t = create_table(w.location, schema())
    t.append_records([row(0)])
    t.append_records([row(1), row(2)])


def build_pointer_lost_template(w: TableWorld) -> None:
    """The healthy template without its version pointer: every open recovers the current version by scanning."""
    import os

    build_template(w)
    if w.backend == "local":
        os.remove(os.path.join(w.root, reader.HINT))
        w.adapter._set(reader.HINT, None)
    else:
        w.s3w.s3._del(f"{w.location}/{reader.HINT}")


def build_empty_template(w: TableWorld) -> None:
    from datashard import create_table

    create_table(w.location, schema())


def _read(t: Any, api: str) -> Any:
    if api == "scan":
        return reader.canon_rows(t.scan())
    if api == "scan_parallel":
        return reader.canon_rows(t.scan(parallel=2))
    if api == "scan_filter":
        return reader.canon_rows(t.scan(filter={"a": (">=", 1)}))
    if api == "scan_batches":
        out: List[Dict[str, Any]] = []
        for b in t.scan_batches(batch_size=1):
            out.extend(b)
        return reader.canon_rows(out)
    if api == "iter_records":
        return reader.canon_rows(list(t.iter_records()))
    if api == "row_count":
        return t.row_count()
    raise ValueError(api)


def _expect(rows: List[Tuple], api: str) -> Any:
    if api == "row_count":
        return len(rows)
    if api == "scan_filter":
        return [r for r in rows if dict(r)["a"] >= 1]
    return list(rows)


class _PointerFault:
    """Makes the writer's pointer write fail (local: OSError before the rename;
    S3: a non-precondition ClientError before the effect)."""

    def __init__(self, actor: str):
        self.actor = actor
        self.fired = 0

    # local hook
    def before(self, ev: Any) -> None:
        if ev.fn == "replace" and ev.path2 and ev.path2.endswith(HINT_NAME) and ev.actor == self.actor:
            self.fired += 1
            raise OSError(5, "injected I/O error at the pointer rename")

    def after(self, ev: Any, res: Any, exc: Any) -> None:
        pass

    # s3 gate
    def gate(self, req: Any) -> None:
        if req.op == "PUT" and req.key.endswith(HINT_NAME) and req.actor == self.actor:
            self.fired += 1
            raise ClientError({"Error": {"Code": "InternalError", "Message": "injected"}}, "PutObject")


class C02World(TableWorld):
    def __init__(self, backend: str, api: str, writers: Tuple[str, ...], n_readers: int, rep: Report, cfg: Dict[str, Any]):
        self.lazy_handles = bool(cfg.get("pointer_lost"))
        super().__init__(backend, "separate", n_readers + len(writers),
                         build_empty_template if cfg.get("empty") else
                         (build_pointer_lost_template if cfg.get("pointer_lost") else build_template), name="c02")
        self.api, self.writers, self.n_readers = api, writers, n_readers
        self.rep, self.cfg = rep, cfg
        self.prelude = cfg.get("reader_prelude")
        self.reads: Dict[str, List[Tuple[int, int, Any]]] = {}
        self.outcomes: Dict[Any, int] = {}
        self.faults: List[_PointerFault] = []
        fault_actors = [f"W{i}" for i, wop in enumerate(writers) if wop == "failed_commit"]
        if self.prelude == "failed_commit":
            fault_actors.append("R0")
        for fa in fault_actors:
            if True:
                f = _PointerFault(fa)
                self.faults.append(f)
                if backend == "local":
                    ENV.hooks.append(f)
                else:
                    self.s3w.s3.gates.append(f.gate)
        st = self.state()
        if st.md is None and cfg.get("pointer_lost"):
            st = reader.TableState(self.view, name=reader.metadata_files(self.view)[-1][1])
        self.v0 = st.md["__file__"]
        self.base_files = st.current_files()
        self.base_current = st.current_id
        self._rows_cache: Dict[str, List[Tuple]] = {}

    def close(self) -> None:
        for f in self.faults:
            if f in ENV.hooks:
                ENV.hooks.remove(f)
        super().close()

    def reset(self) -> None:
        super().reset()
        self.reads = {}
        self.prelude_result = None

    def actors(self):
        out = []
        for r in range(self.n_readers):
            out.append((f"R{r}", self._reader(r)))
        for i, wop in enumerate(self.writers):
            out.append((f"W{i}", self._writer(i, wop)))
        return out

    def _reader(self, r: int):
        t = None if self.lazy_handles else self.handle(r)
        name = f"R{r}"

        def body():
            nonlocal t
            if t is None:
                t = self.handle(r)  # opened by the actor itself
            log = self.reads.setdefault(name, [])
            if self.prelude == "failed_commit" and r == 0:
                # the SAME handle first attempts a commit that fails at the pointer write, then reads
                try:
                    t.append_records([row(90)])
                    self.prelude_result = "ok"
                except Exception as e:  # noqa
                    self.prelude_result = type(e).__name__
            for _ in range(2):
                a = len(self.publish_log)
                res = _read(t, self.api)
                log.append((a, len(self.publish_log), res))
            return True

        return body

    def _writer(self, i: int, wop: str):
        t = None if self.lazy_handles else self.handle(self.n_readers + i)
        files = self.base_files

        def body():
            nonlocal t
            if t is None:
                t = self.handle(self.n_readers + i)
            if wop in ("append", "failed_commit"):
                return t.append_records([row(10 + i)])
            if wop == "append2tx":
                with t.new_transaction() as tx:
                    tx.append_data([row(20 + i)])
                    tx.append_data([row(30 + i)])
                    return tx.commit()
            if wop == "delete_file":
                with t.new_transaction() as tx:
                    tx.delete_files(["/" + files[-1]])
                    return tx.commit()
            if wop == "replace":
                with t.new_transaction() as tx:
                    tx.delete_files(["/" + files[-1]])
                    tx.append_data([row(50 + i)])
                    return tx.commit()
            if wop == "append_expire":
                # one commit that both supersedes the reader's snapshot and drops it from the metadata
                with t.new_transaction() as tx:
                    tx.append_data([row(60 + i)])
                    tx.expire_snapshots(int(ENV.clock * 1000) + 10_000)
                    return tx.commit()
            if wop == "delete_current":
                return t.snapshot_manager.delete_snapshot(self.base_current)
            if wop == "rollback":
                tx = t.new_transaction().begin()
                tx.append_data([row(40 + i)])
                return tx.rollback()
            raise ValueError(wop)

        return body

    def rows_of(self, md_file: str) -> List[Tuple]:
        if md_file not in self._rows_cache:
            st = reader.TableState(self.view, name=md_file, all_snaps=False)
            if st.errors:
                raise reader.ReadError(str(st.errors))
            self._rows_cache[md_file] = st.current_rows()
        return self._rows_cache[md_file]

    def check(self, ex: Execution) -> None:
        rep = self.rep
        acts = {a.name: a for a in ex.actors}
        problems: List[str] = []
        if ex.deadlock:
            problems.append("deadlock")
        versions = [self.v0] + [body.strip() for _a, body in self.publish_log]
        self._rows_cache = {k: v for k, v in self._rows_cache.items() if k == self.v0}
        for rname in [f"R{r}" for r in range(self.n_readers)]:
            a = acts[rname]
            if a.exc is not None:
                problems.append(f"{rname} raised {type(a.exc).__name__}: {str(a.exc)[:120]}")
                continue
            lo = 0
            for k, (ia, ib, res) in enumerate(self.reads.get(rname, [])):
                match = None
                for i in range(max(ia, lo), ib + 1):
                    try:
                        want = _expect(self.rows_of(versions[i]), self.api)
                    except reader.ReadError as e:
                        problems.append(f"published version {versions[i]} unreadable: {e}")
                        continue
                    if res == want:
                        match = i
                        break
                if match is None and self.cfg.get("pointer_lost"):
                    # without a pointer the reader resolves "current" by scanning, and the writer's metadata file is on
                    # storage before its commit point: what such a read may see is C10's subject (known findings there);
                    # here it only has to be SOME published version
                    if any(_safe_eq(self, v, res) for v in versions):
                        self.rep.add("pointer_lost_reads_not_judged_against_the_commit_point")
                        continue
                if match is None:
                    any_i = [i for i in range(0, len(versions)) if _safe_eq(self, versions[i], res)]
                    why = ("moved backwards in commit order" if any(i < lo for i in any_i) and any_i else
                           "matches no version current during the read" if not any_i else
                           "matches only a version not current during the read")
                    problems.append(f"{rname} read #{k} ({self.api}) {why}: got {res!r}, interval [{ia},{ib}], floor {lo}")
                else:
                    lo = match
        pubs = [a for a, _b in self.publish_log]
        for i, wop in enumerate(self.writers):
            w = acts[f"W{i}"]
            kind, val = outcome_of(w)
            if wop == "failed_commit" and kind == "ok":
                problems.append(f"W{i} commit with a failing pointer write reported success")
            n = pubs.count(f"W{i}")
            want = 1 if (kind == "ok" and val is True and wop not in ("rollback", "failed_commit")) else 0
            if n != want:
                problems.append(f"W{i} ({wop}, outcome {kind}:{val}) advanced the pointer {n} times: a transaction must "
                                f"become visible all at once ({want} expected)")
        if self.prelude == "failed_commit" and pubs.count("R0"):
            problems.append("R0's failing commit advanced the pointer")
        # whoever else touched the pointer meanwhile: the table must end on the last acknowledged commit
        acked = [body.strip() for a, body in self.publish_log if a.startswith("W") and
                 outcome_of(acts[a]) == ("ok", True)]
        if acked:
            try:
                fs = self.state()
                final = fs.md["__file__"] if fs.md is not None else reader.metadata_files(self.view)[-1][1]
            except Exception as e:  # noqa
                final = f"<unreadable: {e}>"
            if final != acked[-1]:
                problems.append(f"the table ends on {final}, not on the last acknowledged commit {acked[-1]}")
        okey = (len(self.publish_log), tuple(sorted((n, tuple((a, b) for a, b, _ in v)) for n, v in self.reads.items())))
        self.outcomes[okey] = self.outcomes.get(okey, 0) + 1
        rep.nontrivial((self.cfg["id"], okey))
        if problems:
            rep.violation(
                {"backend": self.backend, "api": self.api, "writers": list(self.writers),
                 "problem": problems[0].split(":")[0][:80]},
                {"config": self.cfg, "choices": ex.choices, "schedule": ex.trace, "problems": problems,
                 "shared_keys": sorted(ex.ex.shared_keys), "shared_prefixes": sorted(ex.ex.shared_prefixes),
                 "versions": versions})


def _safe_eq(w: C02World, v: str, res: Any) -> bool:
    try:
        return _expect(w.rows_of(v), w.api) == res
    except Exception:
        return False


def run_config(cfg: Dict[str, Any]) -> Dict[str, Any]:
    rep = Report("C02", cfg["tier"], cfg["seed"], "model_checking")
    w = C02World(cfg["backend"], cfg["api"], tuple(cfg["writers"]), cfg.get("readers", 1), rep, cfg)
    try:
        exp = Explorer(w, bound=cfg.get("bound"), seed=cfg["seed"], clock_mode="TICK", horizon=4000,
                       max_exec=cfg.get("max_exec"))
        exp.on_complete = w.check
        stats = exp.explore()
        exp.visited.clear()
        sample = exp.execute([]) if cfg.get("sample") else None
    finally:
        w.close()
    rep.add("states", stats["states"])
    rep.add("transitions", stats["transitions"])
    rep.add("executions", stats["executions"])
    rep.add("traces_validated_against_impl", stats["complete"])
    rep.add("determinism_replays", stats["determinism_replays"])
    rep.add("configs")
    rep.setmax("max_depth", stats["max_depth"])
    rep.cov.setdefault("per_config", {})[cfg["id"]] = stats["executions"]
    rep.cov.setdefault("distinct_outcomes", {})[cfg["id"]] = len(w.outcomes)
    for f in w.faults:
        rep.add("injected_pointer_faults", f.fired)
    if stats["capped"] or exp.cap_hit:
        rep.caps.append(f"{cfg['id']}: cap hit")
    if sample is not None:
        rep.sample({"config": cfg["id"], "default_schedule": sample.trace[:60]})
    return rep.part()


def configs(tier: str, seed: int) -> List[Dict[str, Any]]:
    out = []

    def add(backend, api, writers, readers=1, bound=None, sample=False, prelude=None, empty=False, pointer_lost=False):
        cid = f"{backend}/{api}/{'+'.join(writers)}/r{readers}" + (f"/b{bound}" if bound is not None else "") \
            + (f"/same-handle-{prelude}" if prelude else "") + ("/empty-table" if empty else "") \
            + ("/pointer-lost" if pointer_lost else "")
        out.append({"id": cid, "backend": backend, "api": api, "writers": list(writers), "readers": readers,
                    "bound": bound, "tier": tier, "seed": seed, "sample": sample, "reader_prelude": prelude, "empty": empty,
                    "pointer_lost": pointer_lost})

    k = seed
    for api in APIS:
        for wop in WRITERS:
            if tier == "quick":
                add(("s3", "local")[k % 2], api, (wop,), sample=(api == "scan" and wop == "append"))
                k += 1
            else:
                add("s3", api, (wop,), sample=(api == "scan" and wop == "append"))
                add("local", api, (wop,))
    # the very first commit of a table lands while a reader is in flight
    for k3, api in enumerate(APIS if tier != "quick" else ("scan", "row_count", "iter_records")):
        add(("s3", "local")[k3 % 2], api, ("append",), empty=True)
    # the pointer is missing when reader and writer start: the reader recovers by scanning while the writer commits
    for k4, api in enumerate(("scan", "row_count") if tier != "quick" else ("row_count",)):
        add("local", api, ("append",), pointer_lost=True, bound=2 if tier == "quick" else None)
        if tier != "quick":
            add("s3", api, ("append",), pointer_lost=True, bound=3)
    # a handle whose own commit failed at the pointer write, then reads while another handle commits
    for k2, api in enumerate(APIS if tier != "quick" else ("scan", "row_count", "scan_batches")):
        add(("local", "s3")[k2 % 2], api, ("append",), prelude="failed_commit", bound=None if tier != "quick" else 2)
    if tier == "quick":
        add("s3", "scan", ("append", "delete_file"), bound=1)
    else:
        for api in ("scan", "scan_batches", "row_count"):
            add("s3", api, ("append", "delete_file"), bound=2)
            add("local", api, ("append2tx", "failed_commit"), bound=2)
            add("s3", api, ("append",), readers=2, bound=2)
        add("s3", "scan", ("append", "append2tx", "delete_file"), bound=1)
    return out


def run(tier: str, seed: int) -> Report:
    rep = Report("C02", tier, seed, "model_checking")
    for part in pmap("checks.c02", "run_config", configs(tier, seed)):
        rep.merge(part)
    rep.cov["exhaustive"] = not rep.caps
    rep.cov["rule"] = ("one execution = one complete interleaving of reader(s) and writer(s) on the real code; "
                       "non-trivial = distinct (config, number of publishes, per-read publish intervals)")
    rep.assumptions += [
        "to_pandas / iter_pandas are not exercised (pandas is not installed in this image)",
        "thread-pool workers of parallel scans run unscheduled while their parent holds the baton (they only read immutable files)",
        "1 reader x 1 writer unbounded; more actors under the preemption bound in the config id",
    ]
    return rep


def replay(case: Dict[str, Any]) -> Dict[str, Any]:
    d = case["detail"]
    cfg = d["config"]
    rep = Report("C02", cfg["tier"], cfg["seed"], "model_checking")
    w = C02World(cfg["backend"], cfg["api"], tuple(cfg["writers"]), cfg.get("readers", 1), rep, cfg)
    try:
        exp = Explorer(w, seed=cfg["seed"], clock_mode="TICK")
        exp.shared_keys, exp.shared_prefixes = set(d["shared_keys"]), set(d["shared_prefixes"])
        ex = exp.execute(d["choices"])
        w.check(ex)
    finally:
        w.close()
    return {"violated": bool(rep.violations), "schedule": ex.trace, "violations": list(rep.violations.values())}
