"""C20 - both storage backends implement the same contract.

Three exhaustively enumerated finite spaces, every element executed on the real
`LocalStorageBackend` / `S3StorageBackend` / `S3RangeFile` code:

(a) explicit-state BFS over operation sequences (depth <= 3 quick / <= 4
    thorough, states = store content incl. local directories, deduplicated).
    Every (state, op) transition is run on three real backends - local on a
    scratch dir, S3 over FakeS3 without a configured prefix, S3 over FakeS3 with
    prefix "pre/fix" (plus foreign objects outside the prefix) - and judged
      * pairwise (local vs each S3 configuration): value, error class mapped to
        {none, not-found, other}, and the resulting store content;
      * against the statement's own reading computed from the ground-truth store
        (exact-key existence, directory-confined + table-relative listings,
        sizes, not-found) - this is what judges S3 where the local file system
        cannot express the situation (a key that is a local directory, a key
        below a file key): those asymmetries are counted, never flagged.
    Every state's witness sequence is additionally replayed from the empty
    store through the real API and compared with the materialised state.
(b) all seek/read programs up to a length bound over objects of boundary sizes:
    raw `S3RangeFile` vs `io.FileIO`, and `open_seekable()` (BufferedReader over
    S3RangeFile) vs buffered `open(path,'rb')`; return values, positions and
    error-ness per step; every `Range` header recorded by a FakeS3 gate and
    required to satisfy 0 <= first <= last < size.
(c) for every request-issuing S3StorageBackend method x each request kind it
    issues: k in 0..B+1 consecutive transient failures (B = configured retry
    budget), lost responses on writes, and every permanent error code.
"""
from __future__ import annotations

import io
import itertools
import json
import os
import random
import re
import shutil
from collections import Counter
from typing import Any, Callable, Dict, List, Optional, Tuple

from dsmc.env import ENV, T0
from dsmc.report import HarnessError, Report, pmap

PROP = "C20"
LEVEL = "model_checking"
BUCKET = "bkt"
PREFIX = "pre/fix"
# "s3d": the configured prefix equals the leading component of table-relative paths ("d/a" lives under key "d/d/a")
CONFIGS = (("s3", ""), ("s3prefix", PREFIX), ("s3d", "d"))
# objects that are NOT part of the table of the prefixed configuration
FOREIGN = {"pre/fixx/d/a": b"F1", "pre/fi": b"F2", "zzz/d/a": b"F3", "d/a": b"F4", "pre/fix": b"F5"}
FOREIGN_D = {"d2/a": b"G1", "dd/a": b"G2", "a": b"G3", "zzz/d/a": b"G4", "d": b"G5"}


def foreign_of(cfg: str) -> Dict[str, bytes]:
    return {"s3": {}, "s3prefix": FOREIGN, "s3d": FOREIGN_D}[cfg]

KEYS = ["a", "d/a", "d/ab", "d2/a", "d/e/f", "d"]
LIST_PREFIXES = ["d", "d/", "d2", "", "d/e"]
MKDIRS = ["d", "d/e", "d2"]
CONTENTS = ["x", "yy"]
JSON_OBJ = {"a": 1}
MUTATING = ("write_file", "write_json", "delete_file", "makedirs")

State = Tuple[Tuple[Tuple[str, bytes], ...], Tuple[str, ...]]  # (files, local dirs)


def alphabet(seed: int = 0) -> List[Tuple[Any, ...]]:
    ops: List[Tuple[Any, ...]] = []
    for k in KEYS:
        for c in CONTENTS:
            ops.append(("write_file", k, c))
        ops.append(("write_json", k))
        for name in ("read_file", "read_json", "open_file", "open_seekable", "open_seekable_tell", "exists", "delete_file",
                     "get_size", "get_modified_time"):
            ops.append((name, k))
    ops.append(("exists", "d/"))  # S3's documented directory form: judged against its own spec only
    for p in LIST_PREFIXES:
        ops.append(("list_files", p))
    for d in MKDIRS:
        ops.append(("makedirs", d))
    if seed:
        random.Random(seed).shuffle(ops)  # the seed only permutes enumeration order
    return ops


# ---------------------------------------------------------------------------
# the three real backends
# ---------------------------------------------------------------------------
class Ctx:
    def __enter__(self) -> "Ctx":
        from datashard.storage_backend import LocalStorageBackend, S3StorageBackend
        from dsmc.fakes3 import S3World
        from dsmc.tables import fresh_dir

        self.base = fresh_dir("c20")
        self.root = os.path.join(self.base, "t")
        os.makedirs(self.root, exist_ok=True)
        self.L = LocalStorageBackend(self.root)
        self.worlds: Dict[str, Any] = {}
        self.S: Dict[str, Any] = {}
        self.OBS: Dict[str, Any] = {}
        self._entered: List[Any] = []
        for cfg, prefix in CONFIGS:
            w = S3World(bucket=BUCKET)
            w.__enter__()
            self._entered.append(w)
            self.worlds[cfg] = w
            self.S[cfg] = S3StorageBackend(bucket=BUCKET, prefix=prefix)
            # a second, long-lived handle on the same store: it only ever observes (sizes, contents) what the first
            # handle wrote - anything a backend object remembers about objects goes stale here
            self.OBS[cfg] = S3StorageBackend(bucket=BUCKET, prefix=prefix)
            if self.S[cfg].s3 is not w.s3:
                raise HarnessError("S3StorageBackend is not wired to the FakeS3 of its world")
        return self

    def __exit__(self, *a: Any) -> None:
        for w in reversed(self._entered):
            w.__exit__(None, None, None)
        shutil.rmtree(self.base, ignore_errors=True)

    # ---- state materialisation / observation (harness side, plain os / dict) ----
    def restore(self, st: State) -> None:
        files, dirs = st
        shutil.rmtree(self.root, ignore_errors=True)
        os.makedirs(self.root)
        for d in dirs:
            os.makedirs(os.path.join(self.root, d), exist_ok=True)
        for k, b in files:
            with open(os.path.join(self.root, k), "wb") as f:
                f.write(b)
        for cfg, prefix in CONFIGS:
            self.restore_s3(cfg, dict(files))

    def restore_s3(self, cfg: str, files: Dict[str, bytes]) -> None:
        from dsmc.fakes3 import Obj

        prefix = dict(CONFIGS)[cfg]
        objs = {s3key(prefix, k): Obj(b, T0) for k, b in files.items()}
        if True:
            for k, b in foreign_of(cfg).items():
                objs[k] = Obj(b, T0)
        s3 = self.worlds[cfg].s3
        s3.gates, s3.after = [], []
        s3.load_state(objs)

    def snap_local(self) -> State:
        files: List[Tuple[str, bytes]] = []
        dirs: List[str] = []
        for r, ds, fs in os.walk(self.root):
            rel = os.path.relpath(r, self.root)
            for d in ds:
                dirs.append(os.path.normpath(os.path.join(rel, d)))
            for f in fs:
                with open(os.path.join(r, f), "rb") as fh:
                    files.append((os.path.normpath(os.path.join(rel, f)), fh.read()))
        return (tuple(sorted(files)), tuple(sorted(dirs)))

    def snap_s3(self, cfg: str) -> Tuple[Dict[str, bytes], Dict[str, bytes]]:
        """(table-relative objects, objects outside the table)"""
        prefix = dict(CONFIGS)[cfg]
        rel: Dict[str, bytes] = {}
        foreign: Dict[str, bytes] = {}
        for k, o in self.worlds[cfg].s3.objs.items():
            if not prefix:
                rel[k] = o.body
            elif k.startswith(prefix + "/"):
                rel[k[len(prefix) + 1:]] = o.body
            else:
                foreign[k] = o.body
        return rel, foreign


def s3key(prefix: str, k: str) -> str:
    return f"{prefix}/{k}" if prefix else k


# ---------------------------------------------------------------------------
# part (a): one operation on one backend -> observation
# ---------------------------------------------------------------------------
def apply_op(b: Any, op: Tuple[Any, ...]) -> Tuple[Any, ...]:
    name = op[0]
    try:
        v: Any = None
        if name == "write_file":
            v = b.write_file(op[1], op[2].encode())
        elif name == "write_json":
            v = b.write_json(op[1], dict(JSON_OBJ))
        elif name == "read_file":
            v = b.read_file(op[1])
        elif name == "read_json":
            v = json.dumps(b.read_json(op[1]), sort_keys=True)
        elif name in ("open_file", "open_seekable"):
            f = getattr(b, name)(op[1])
            try:
                v = f.read()
            finally:
                f.close()
        elif name == "open_seekable_tell":  # open, ask for the position, close - no byte is read
            f = b.open_seekable(op[1])
            try:
                v = int(f.tell())
            finally:
                f.close()
        elif name == "exists":
            v = b.exists(op[1])
        elif name == "list_files":
            v = sorted(b.list_files(op[1]))
        elif name == "delete_file":
            v = b.delete_file(op[1])
        elif name == "get_size":
            v = b.get_size(op[1])
        elif name == "get_modified_time":  # only the not-found mapping is compared, not the (clock dependent) value
            v = b.get_modified_time(op[1])
            if not isinstance(v, float):
                return ("ok", type(v).__name__, "not-a-float")
            return ("ok", "float", None)
        elif name == "makedirs":
            v = b.makedirs(op[1])
        else:
            raise HarnessError(f"unknown op {op!r}")
    except HarnessError:
        raise
    except FileNotFoundError as e:
        return ("err", "not-found", type(e).__name__)
    except Exception as e:  # noqa
        return ("err", "other", type(e).__name__)
    if isinstance(v, (bytearray, memoryview)):
        v = bytes(v)
    return ("ok", type(v).__name__, v)


def same(a: Tuple[Any, ...], b: Tuple[Any, ...]) -> bool:
    """Observations agree: same value (and type), or same error class in {not-found, other}."""
    if a[0] != b[0]:
        return False
    return a[:2] == b[:2] if a[0] == "err" else a == b


def ocls(o: Tuple[Any, ...]) -> str:
    if o[0] == "err":
        return f"err:{o[1]}"
    if o[1] == "list":
        return f"ok:list:{len(o[2])}"
    if o[1] == "bool":
        return f"ok:{o[2]}"
    return f"ok:{o[1]}"


def anc_is_file(files: Dict[str, bytes], k: str) -> bool:
    parts = k.strip("/").split("/")
    return any("/".join(parts[:i]) in files for i in range(1, len(parts)))


def arg_class(op: Tuple[Any, ...], files: Dict[str, bytes], dirs: Tuple[str, ...]) -> str:
    name, k = op[0], op[1]
    if name == "list_files":
        return "empty_prefix" if k == "" else ("dir_prefix_slash" if k.endswith("/") else "dir_prefix_no_slash")
    if k.endswith("/"):
        return "dir_path_slash"
    if anc_is_file(files, k):
        return "under_file_key"
    if name == "makedirs":
        return "file_key" if k in files else "dir"
    if k in dirs:
        return "dir_key"
    return "present_key" if k in files else "missing_key"


def is_conflicted(op: Tuple[Any, ...], cls: str, files: Dict[str, bytes]) -> bool:
    """The situation cannot be expressed by a file system the way an object store expresses it
    (a key that is a directory, a key below a file key, a listing 'directory' that is a file):
    the backends are NOT compared there (documented asymmetry); S3 is held to its own spec."""
    if op[0] == "list_files":
        p = op[1].strip("/")
        return p != "" and (p in files or anc_is_file(files, p))
    return cls in ("under_file_key", "dir_key", "dir_path_slash", "file_key")


def spec(op: Tuple[Any, ...], files: Dict[str, bytes]) -> Tuple[Optional[Tuple[Any, ...]], Dict[str, bytes]]:
    """What the STATEMENT makes of `op` on an object store holding exactly `files`
    (exact keys, contents, sizes, not-found).  Returns (expected observation, expected store)."""
    name, k = op[0], op[1]
    post = dict(files)
    nf = ("err", "not-found")
    if name == "write_file":
        post[k] = op[2].encode()
        return ("ok", "NoneType", None), post
    if name == "write_json":
        post[k] = b"<json>"  # any serialisation that decodes to JSON_OBJ; compared specially
        return ("ok", "NoneType", None), post
    if name in ("read_file", "open_file", "open_seekable"):
        return (("ok", "bytes", files[k]) if k in files else nf), post
    if name == "read_json":
        if k not in files:
            return nf, post
        try:
            return ("ok", "str", json.dumps(json.loads(files[k].decode("utf-8")), sort_keys=True)), post
        except Exception:
            return ("err", "other"), post
    if name == "exists":
        hit = k in files or (k.endswith("/") and any(f.startswith(k) for f in files))
        return ("ok", "bool", hit), post
    if name == "open_seekable_tell":
        return (("ok", "int", 0) if k in files else nf), post
    if name == "get_size":
        return (("ok", "int", len(files[k])) if k in files else nf), post
    if name == "get_modified_time":
        return (("ok", "float", None) if k in files else nf), post
    if name == "delete_file":
        post.pop(k, None)
        return ("ok", "NoneType", None), post
    if name == "makedirs":
        return ("ok", "NoneType", None), post
    raise HarnessError(f"no spec for {op!r}")


def store_matches(got: Dict[str, bytes], want: Dict[str, bytes]) -> bool:
    if set(got) != set(want):
        return False
    for k, w in want.items():
        if w == b"<json>":
            try:
                if json.loads(got[k].decode("utf-8")) != JSON_OBJ:
                    return False
            except Exception:
                return False
        elif got[k] != w:
            return False
    return True


def classify(op: Tuple[Any, ...], a: Tuple[Any, ...], b: Tuple[Any, ...]) -> str:
    if a[0] != b[0]:
        e = a if a[0] == "err" else b
        return "not_found_vs_result" if e[1] == "not-found" else "error_vs_result"
    if a[0] == "err":
        return "not_found_mapping_differs" if a[1] != b[1] else "store_diverged"
    if a != b:
        n = op[0]
        if n in ("read_file", "read_json", "open_file", "open_seekable"):
            return "content_differs"
        return {"exists": "existence_differs", "get_size": "size_differs"}.get(n, "result_differs")
    return "store_diverged"


def judge_listing(rep: Report, op: Tuple[Any, ...], cls: str, files: Dict[str, bytes],
                  obs: Dict[str, Tuple[Any, ...]], conflicted: bool, seq: List[Any]) -> None:
    """`list_files(p)`: only table-relative paths of existing files, all of them under the
    directory p ("listings confined to the named directory"), none missing - on every backend."""
    p = op[1].strip("/")

    def confined(r: str) -> bool:
        return p == "" or r.startswith(p + "/")

    want = sorted(f for f in files if confined(f))
    lo = obs["local"]
    for who, o in obs.items():
        problem = None
        if o[0] == "err":
            if conflicted and who == "local":
                rep.add("a_asymmetry_tolerated")
                continue
            problem = "listing_error"
            bad: List[str] = [o[2]]
        else:
            got = list(o[2])
            if not all(isinstance(r, str) for r in got):
                problem, bad = "listing_not_strings", [repr(r) for r in got]
            elif any(r not in files for r in got):
                problem, bad = "listing_not_table_relative", [r for r in got if r not in files]
            elif any(not confined(r) and r != p for r in got):
                problem, bad = "listing_not_confined", [r for r in got if not confined(r) and r != p]
            elif any(f not in got for f in want):
                problem, bad = "listing_incomplete", [f for f in want if f not in got]
            elif len(set(got)) != len(got):
                problem, bad = "listing_duplicates", got
            elif p in got:
                # the 'directory' is itself a file key and the listing returns that key: the
                # statement does not say what listing a FILE means - accepted, counted
                rep.add("a_info_listing_of_file_key_returns_itself")
        if problem is None:
            continue
        if who == "local":
            pair = "local-vs-spec"
        else:
            pair = "local-vs-s3" if not same(lo, o) else "both-vs-spec"
        rep.violation({"part": "a", "op": "list_files", "arg_class": cls, "pair": pair, "problem": problem},
                      {"sequence": seq, "backend": who, "prefix_arg": op[1], "store": sorted(files),
                       "offending": bad, "observed": {w: list(x[2]) if x[0] == "ok" else x for w, x in obs.items()},
                       "expected": want})


def transition(ctx: Ctx, rep: Report, st: State, path: List[Any], op: Tuple[Any, ...],
               dirty: bool) -> Tuple[Optional[State], bool]:
    """Run `op` from state `st` on the three real backends and judge it.
    Returns (successor state or None when not to be expanded, stores-now-dirty)."""
    if dirty:
        ctx.restore(st)
    files = dict(st[0])
    dirs = st[1]
    seq = [list(x) for x in path] + [list(op)]
    cls = arg_class(op, files, dirs)
    conflicted = is_conflicted(op, cls, files)
    obs: Dict[str, Tuple[Any, ...]] = {"local": apply_op(ctx.L, op)}
    for cfg, _p in CONFIGS:
        obs[cfg] = apply_op(ctx.S[cfg], op)
    post_l = ctx.snap_local()
    post_s = {cfg: ctx.snap_s3(cfg) for cfg, _p in CONFIGS}
    rep.add("transitions")
    rep.add("a_backend_operations", 1 + len(CONFIGS))
    rep.nontrivial(("a", op[0], cls, ocls(obs["local"]), ocls(obs["s3"]), ocls(obs["s3prefix"]), ocls(obs["s3d"])))
    if len(rep.samples) < 2 and len(path) >= 2 and tuple(op) in (("list_files", "d"), ("exists", "d")) and len(files) >= 2:
        rep.sample({"part": "a", "sequence": seq, "observed": {w: o for w, o in obs.items()}})

    # a second handle observes every key of the alphabet after the operation: size and bytes as stored now
    for cfg, _p in CONFIGS:
        rel_now = post_s[cfg][0]
        for k in KEYS:
            rep.add("a_second_handle_observations")
            try:
                sz: Any = ctx.OBS[cfg].get_size(k)
            except Exception as e:  # noqa
                sz = ("err", type(e).__name__)
            try:
                f = ctx.OBS[cfg].open_seekable(k)
                try:
                    data: Any = f.read()
                finally:
                    f.close()
            except Exception as e:  # noqa
                data = ("err", type(e).__name__)
            if k in rel_now:
                ok2 = sz == len(rel_now[k]) and data == rel_now[k]
            else:
                ok2 = isinstance(sz, tuple) and isinstance(data, tuple)
            if not ok2:
                rep.violation({"part": "a", "op": op[0], "arg_class": cls, "pair": "second-handle-vs-store",
                               "problem": "stale_or_wrong_observation_through_another_handle"},
                              {"sequence": seq, "config": cfg, "key": k, "stored": repr(rel_now.get(k))[:60],
                               "get_size": repr(sz), "read": repr(data)[:60]})
                break
    changed = post_l != st or any(dict(st[0]) != r or f != foreign_of(cfg)
                                  for cfg, (r, f) in post_s.items())
    # objects outside the configured prefix are never touched (table-relative key mapping)
    for cfg, (_r, foreign) in post_s.items():
        if foreign != foreign_of(cfg):
            rep.violation({"part": "a", "op": op[0], "arg_class": cls, "pair": "s3-vs-spec",
                           "problem": "object_outside_prefix_touched"},
                          {"sequence": seq, "config": cfg, "foreign_after": sorted(foreign)})

    if op[0] == "list_files":
        judge_listing(rep, op, cls, files, obs, conflicted, seq)
        if changed:
            rep.violation({"part": "a", "op": op[0], "arg_class": cls, "pair": "any", "problem": "read_op_changed_store"},
                          {"sequence": seq})
        return None, changed

    exp_obs, exp_post = spec(op, files)
    for cfg, _p in CONFIGS:
        o, (rel, _f) = obs[cfg], post_s[cfg]
        ok_spec = same(o, exp_obs) and store_matches(rel, exp_post)  # type: ignore[arg-type]
        if conflicted:
            if not same(obs["local"], o):
                rep.add("a_asymmetry_tolerated")
                rep.nontrivial(("a-asym", op[0], cls, ocls(obs["local"]), ocls(o)))
            if not ok_spec:
                prob = classify(op, exp_obs, o) if not same(o, exp_obs) else "store_diverged"  # type: ignore[arg-type]
                rep.violation({"part": "a", "op": op[0], "arg_class": cls, "pair": "s3-vs-spec", "problem": prob},
                              {"sequence": seq, "config": cfg, "store": sorted(files), "expected": exp_obs,
                               "observed": o, "store_after": sorted(rel), "expected_store_after": sorted(exp_post)})
            continue
        agree = same(obs["local"], o) and dict(post_l[0]) == rel
        if not agree:
            rep.violation({"part": "a", "op": op[0], "arg_class": cls, "pair": "local-vs-s3",
                           "problem": classify(op, obs["local"], o)},
                          {"sequence": seq, "config": cfg, "store": sorted(files), "local": obs["local"], "s3": o,
                           "spec": exp_obs, "local_store_after": [k for k, _ in post_l[0]], "s3_store_after": sorted(rel)})
        elif not ok_spec:
            rep.violation({"part": "a", "op": op[0], "arg_class": cls, "pair": "both-vs-spec",
                           "problem": classify(op, exp_obs, o)},  # type: ignore[arg-type]
                          {"sequence": seq, "config": cfg, "store": sorted(files), "observed": o, "spec": exp_obs})

    if op[0] not in MUTATING:
        if changed:
            rep.violation({"part": "a", "op": op[0], "arg_class": cls, "pair": "any", "problem": "read_op_changed_store"},
                          {"sequence": seq})
        return None, changed
    if conflicted:
        # e.g. write_file("d") while "d/a" exists: an error on a file system, fine on an object
        # store - such sequences are not continued
        rep.add("a_sequences_skipped_meaningless_on_local")
        return None, True
    if obs["local"][0] == "err":
        rep.add("a_mutations_failed_on_local")
        return None, True
    if any(dict(post_l[0]) != post_s[cfg][0] for cfg, _p in CONFIGS):
        return None, True  # already reported as store_diverged
    return post_l, True


def validate_trace(ctx: Ctx, st: State, path: List[Any]) -> None:
    """Replay the witness sequence of `st` from the empty store through the real API on all three
    backends: the stores must end up exactly as the state the explorer materialises directly."""
    ctx.restore(((), ()))
    for op in path:
        op = tuple(op)
        for b in [ctx.L] + [ctx.S[cfg] for cfg, _p in CONFIGS]:
            apply_op(b, op)
    got = ctx.snap_local()
    if got != st:
        raise HarnessError(f"witness {path!r} does not reproduce state {st!r}: local is {got!r}")
    for cfg, _p in CONFIGS:
        rel, foreign = ctx.snap_s3(cfg)
        if rel != dict(st[0]) or foreign != foreign_of(cfg):
            raise HarnessError(f"witness {path!r} does not reproduce state on {cfg}: {sorted(rel)}")


def expand_states(payload: Tuple[Any, ...]) -> Dict[str, Any]:
    _tag, tier, seed, items, do_expand = payload
    rep = Report(PROP, tier, seed, LEVEL)
    ops = alphabet(seed)
    succ: List[Tuple[State, List[Any]]] = []
    seen = set()
    with Ctx() as ctx:
        for st, path in items:
            ENV.reset(seed)
            validate_trace(ctx, st, path)
            rep.add("traces_validated_against_impl")
            if not do_expand:
                continue
            dirty = True
            for op in ops:
                nxt, dirty = transition(ctx, rep, st, path, op, dirty)
                if nxt is not None and nxt != st and nxt not in seen:
                    seen.add(nxt)
                    succ.append((nxt, path + [list(op)]))
    out = rep.part()
    out["succ"] = succ
    return out


# ---------------------------------------------------------------------------
# part (b): seek/read programs
# ---------------------------------------------------------------------------
BIG = (2 ** 20, 2 ** 20 + 1)


def content_of(n: int) -> bytes:
    return (bytes(range(1, 252)) * (n // 251 + 1))[:n]


def step_alphabet(n: int, reduced: bool) -> List[Tuple[Any, ...]]:
    if reduced:
        offs, whs, ks = sorted({-1, 0, 1, n - 1, n, n + 1}), [0, 1, 2], sorted({-1, 1, n - 1, n, n + 1})
    else:
        offs, whs, ks = sorted({-2, -1, 0, 1, n - 1, n, n + 1}), [0, 1, 2, 7], sorted({-1, 0, 1, 2, n, n + 1})
    ops: List[Tuple[Any, ...]] = [("seek", o, w) for o in offs for w in whs]
    ops += [("read", k) for k in ks]
    ops += [("readinto", k) for k in ks if k >= 0]
    ops += [("readall",), ("tell",)]
    return ops


def run_step(f: Any, st: Tuple[Any, ...], raw: bool) -> Tuple[Any, ...]:
    try:
        kind = st[0]
        if kind == "seek":
            v: Any = f.seek(st[1], st[2])
        elif kind == "read":
            v = f.read(st[1])
        elif kind == "readinto":
            buf = bytearray(st[1])
            r = f.readinto(buf)
            v = (r, bytes(buf))
        elif kind == "readall":
            v = f.readall() if raw else f.read()
        else:
            v = f.tell()
        res: Tuple[Any, ...] = ("ok", v)
    except Exception as e:  # noqa
        res = ("err", type(e).__name__)
    try:
        pos: Any = f.tell()
    except Exception as e:  # noqa
        pos = ("err", type(e).__name__)
    return res + (pos,)


_RANGE = re.compile(r"^bytes=(\d+)-(\d*)$")


def size_class(n: int) -> str:
    return "empty" if n == 0 else ("small" if n < 100 else "buffer_boundary")


def pos_class(pos: Any, n: int) -> str:
    if not isinstance(pos, int):
        return "err"
    return "0" if pos == 0 else ("mid" if pos < n else ("eof" if pos == n else "past"))


def run_program(rep: Report, env: Dict[str, Any], n: int, mode: str, prog: Tuple[Tuple[Any, ...], ...]) -> None:
    from datashard.storage_backend import S3RangeFile

    raw = mode == "raw"
    ranges: List[Any] = env["ranges"]
    del ranges[:]
    if raw:
        fs: Any = S3RangeFile(env["s3"], BUCKET, env["key"], n)
        fl: Any = io.FileIO(env["path"], "r")
    else:
        fs = env["S"].open_seekable("obj")
        fl = open(env["path"], "rb")
    rep.add("programs")
    try:
        for i, st in enumerate(prog):
            ol = run_step(fl, st, raw)
            os_ = run_step(fs, st, raw)
            rep.add("b_steps")
            rep.nontrivial(("b", mode, size_class(n), st[0], st[2] if st[0] == "seek" else None,
                            os_[0], pos_class(os_[-1], n)))
            problem = None
            if ol[0] != os_[0]:
                problem = "error_vs_result"  # incl. a negative position accepted / rejected on one side only
            elif ol[0] == "ok" and ol[1] != os_[1]:
                problem = "value_differs"
            elif ol[-1] != os_[-1]:
                problem = "position_differs"
            elif ol[0] == "err" and ol[1] != os_[1]:
                rep.add("b_info_exception_class_differs")  # both fail; the statement only demands an error
            if problem:
                key = {"part": "b", "mode": mode, "step": st[0], "size_class": size_class(n), "problem": problem}
                if st[0] == "seek":
                    key["whence"] = st[2]
                rep.violation(key, {"size": n, "mode": mode, "program": [list(s) for s in prog], "step_index": i,
                                    "local": ol, "s3": os_})
                break
    finally:
        fl.close()
        try:
            fs.close()
        except Exception:
            pass
    for r in ranges:
        rep.add("b_range_requests")
        bad = None
        if r is None:
            rep.add("b_info_unranged_get")
            continue
        m = _RANGE.match(r)
        if not m:
            bad = "range_malformed"
        else:
            first = int(m.group(1))
            last = int(m.group(2)) if m.group(2) else n - 1
            if not (0 <= first <= last < n):
                bad = "range_out_of_bounds"
        if bad:
            rep.violation({"part": "b", "mode": mode, "size_class": size_class(n), "problem": bad},
                          {"size": n, "mode": mode, "program": [list(s) for s in prog], "range": r, "all_ranges": list(ranges)})
            break


def run_programs(payload: Tuple[Any, ...]) -> Dict[str, Any]:
    _tag, tier, seed, n, mode, maxlen, reduced, firsts = payload
    from datashard.storage_backend import S3StorageBackend
    from dsmc.fakes3 import Obj, S3World
    from dsmc.tables import fresh_dir

    rep = Report(PROP, tier, seed, LEVEL)
    ENV.reset(seed)
    ops = step_alphabet(n, reduced)
    base = fresh_dir(f"c20b-{n}-{mode}")
    path = os.path.join(base, "obj")
    data = content_of(n)
    with open(path, "wb") as f:
        f.write(data)
    with S3World(bucket=BUCKET) as w:
        S = S3StorageBackend(bucket=BUCKET, prefix=PREFIX)
        key = s3key(PREFIX, "obj")
        w.s3.load_state({key: Obj(data, T0)})
        ranges: List[Any] = []
        w.s3.gates.append(lambda req: ranges.append(req.extra) if req.op == "GET" else None)
        env = {"s3": w.s3, "S": S, "key": key, "path": path, "ranges": ranges}
        for first in firsts:
            first = tuple(first)
            for ln in range(1, maxlen + 1):
                for rest in itertools.product(ops, repeat=ln - 1):
                    run_program(rep, env, n, mode, (first,) + rest)
        if w.s3.objs[key].body != data:
            raise HarnessError("reader changed the object")
    if firsts and firsts[0] == ops[0]:
        rep.sample({"part": "b", "size": n, "mode": mode, "program_example": [list(x) for x in ([firsts[0], ops[-3], ops[-2]][:maxlen])],
                    "step_alphabet_size": len(ops), "max_len": maxlen})
    shutil.rmtree(base, ignore_errors=True)
    return rep.part()


# ---------------------------------------------------------------------------
# part (c): fault sequences
# ---------------------------------------------------------------------------
C_STORE = {"d/a": b"hello", "d/ab": b"yy", "d2/a": b"x", "j": b'{"a": 1}'}

# transient errors as S3 really sends them - including the ones that carry a 4xx HTTP status
TRANSIENT_QUICK = [("InternalError", 500), ("SlowDown", 503), ("500", 500), ("RequestTimeout", 400)]
TRANSIENT_MORE = [("ServiceUnavailable", 503), ("OperationAborted", 409), ("503", 503), ("BotoCoreError:EndpointConnectionError", 0)]
PERMANENT_QUICK = ["AccessDenied", "NoSuchBucket", "403"]


def _range_file(S: Any) -> Any:
    from datashard.storage_backend import S3RangeFile

    return S3RangeFile(S.s3, S.bucket, S._get_s3_key("d/a"), len(C_STORE["d/a"]))


def _readinto(S: Any) -> Any:
    f = _range_file(S)
    f.seek(1)
    buf = bytearray(3)
    return (f.readinto(buf), bytes(buf), f.tell())


def _readall(S: Any) -> Any:
    f = _range_file(S)
    f.seek(2)
    return (f.readall(), f.tell())


def _with(f: Any) -> Any:
    try:
        return f.read()
    finally:
        f.close()


def _etag(body: bytes) -> str:
    import hashlib

    return '"' + hashlib.md5(body).hexdigest() + '"'


# (case, method, call, request kinds it issues, retried?)
CASES: List[Tuple[str, str, Callable[[Any], Any], Tuple[str, ...], bool]] = [
    ("read_file", "read_file", lambda S: S.read_file("d/a"), ("GET",), True),
    ("read_json", "read_json", lambda S: S.read_json("j"), ("GET",), True),
    ("open_file", "open_file", lambda S: _with(S.open_file("d/a")), ("GET",), True),
    ("read_file_with_etag", "read_file_with_etag", lambda S: S.read_file_with_etag("d/a"), ("GET",), True),
    ("write_file_new", "write_file", lambda S: S.write_file("n/new", b"zz"), ("PUT",), True),
    ("write_file_overwrite", "write_file", lambda S: S.write_file("d/a", b"zz"), ("PUT",), True),
    ("write_json", "write_json", lambda S: S.write_json("n/j", {"a": 1}), ("PUT",), True),
    ("exists_present", "exists", lambda S: S.exists("d/a"), ("HEAD",), True),
    ("exists_missing", "exists", lambda S: S.exists("zz"), ("HEAD",), True),
    ("exists_dir", "exists", lambda S: S.exists("d/"), ("HEAD", "LIST"), True),
    ("exists_dir_empty", "exists", lambda S: S.exists("q/"), ("HEAD", "LIST"), True),
    ("list_files", "list_files", lambda S: sorted(S.list_files("d/")), ("LIST",), True),
    ("list_files_empty", "list_files", lambda S: sorted(S.list_files("q/")), ("LIST",), True),
    ("delete_file", "delete_file", lambda S: S.delete_file("d/a"), ("DELETE",), True),
    ("delete_file_missing", "delete_file", lambda S: S.delete_file("zz"), ("DELETE",), True),
    ("get_size", "get_size", lambda S: S.get_size("d/a"), ("HEAD",), True),
    ("get_modified_time", "get_modified_time", lambda S: S.get_modified_time("d/a"), ("HEAD",), True),
    ("open_seekable_read", "open_seekable", lambda S: _with(S.open_seekable("d/a")), ("HEAD", "GET"), True),
    ("range_readinto", "S3RangeFile.readinto", _readinto, ("GET",), True),
    ("range_readall", "S3RangeFile.readall", _readall, ("GET",), True),
    ("write_file_cas_create", "write_file_cas", lambda S: S.write_file_cas("n/cas", b"c", None), ("PUT",), False),
    ("write_file_cas_replace", "write_file_cas",
     lambda S: S.write_file_cas("d/a", b"c", _etag(C_STORE["d/a"])), ("PUT",), False),
]


def make_exc(code: str, status: int, op: str) -> BaseException:
    from botocore.exceptions import ClientError, EndpointConnectionError

    if code.startswith("BotoCoreError:"):
        return EndpointConnectionError(endpoint_url="http://fake-s3")
    return ClientError({"Error": {"Code": code, "Message": code}, "ResponseMetadata": {"HTTPStatusCode": status}}, op)


def run_faulted(ctx: Ctx, cfg: str, call: Callable[[Any], Any], target: Optional[str], nfail: int,
                code: str, status: int, when: str) -> Tuple[Tuple[Any, ...], int, Dict[str, bytes], Dict[str, int]]:
    """Fail the first `nfail` attempts of request kind `target` (before the effect, or - `when`
    == 'after' - after it: a lost response).  Returns (outcome, attempts of target, store, all attempts)."""
    ENV.reset(0)
    ctx.restore_s3(cfg, dict(C_STORE))
    s3 = ctx.worlds[cfg].s3
    attempts: Counter = Counter()
    lost = [0]

    def gate(req: Any) -> None:
        attempts[req.op] += 1
        if when == "before" and req.op == target and attempts[req.op] <= nfail:
            raise make_exc(code, status, req.op)

    def after(req: Any, res: Any) -> None:
        if when == "after" and req.op == target and not isinstance(res, BaseException) and lost[0] < nfail:
            lost[0] += 1
            raise make_exc(code, status, req.op)

    s3.gates, s3.after = [gate], [after]
    try:
        v = call(ctx.S[cfg])
        if isinstance(v, float):
            v = round(v, 6)
        out: Tuple[Any, ...] = ("ok", type(v).__name__, v)
    except Exception as e:  # noqa
        c = getattr(e, "response", None)
        out = ("err", type(e).__name__, c.get("Error", {}).get("Code") if isinstance(c, dict) else None)
    finally:
        s3.gates, s3.after = [], []
    rel, foreign = ctx.snap_s3(cfg)
    store = dict(rel)
    store.update({"<outside-table>:" + k: v for k, v in foreign.items()})
    return out, (attempts[target] if target else 0), store, dict(attempts)


def run_faults(payload: Tuple[Any, ...]) -> Dict[str, Any]:
    _tag, tier, seed, cfg = payload
    import datashard.s3_consistency as s3c

    rep = Report(PROP, tier, seed, LEVEL)
    budget = int(s3c.default_handler.max_retries)
    rep.cov["max_c_retry_budget"] = budget
    transient = TRANSIENT_QUICK + (TRANSIENT_MORE if tier == "thorough" else [])
    permanent = PERMANENT_QUICK if tier == "quick" else sorted(s3c.PERMANENT_S3_ERROR_CODES)
    sampled = False
    with Ctx() as ctx:
        for case, method, call, targets, retried in CASES:
            base, _n, base_store, base_att = run_faulted(ctx, cfg, call, None, 0, "", 0, "before")
            if base[0] != "ok":
                # the same call on the same stored objects succeeds on every other configuration
                # (and on the local backend in part a): a failure without any injected fault is a
                # key-mapping error of this configuration, not a harness condition
                rep.violation({"part": "c", "method": method, "request": targets[0], "fault": "none",
                               "problem": "fault_free_operation_failed"},
                              {"case": case, "config": cfg, "outcome": repr(base)})
                continue
            outside = {k[len("<outside-table>:"):]: v for k, v in base_store.items() if k.startswith("<outside-table>:")}
            if outside != foreign_of(cfg):
                rep.violation({"part": "c", "method": method, "request": targets[0], "fault": "none",
                               "problem": "object_outside_prefix_touched"},
                              {"case": case, "config": cfg, "outside_after": sorted(outside)})
            for target in list(targets):
                if base_att.get(target, 0) == 0:
                    # this build serves the call without that request: nothing to fault there
                    rep.add("fault_targets_not_issued_by_the_fault_free_call")
                    targets = [t for t in targets if t != target]
                elif base_att.get(target, 0) != 1:
                    raise HarnessError(f"{case}: fault-free run issues {base_att} (expected one {target})")

                def report(fault: str, problem: str, detail: Dict[str, Any]) -> None:
                    rep.violation({"part": "c", "method": method, "request": target, "fault": fault, "problem": problem},
                                  dict(detail, case=case, config=cfg, fault_free=base))

                # ---- transient failures before the request takes effect -------------
                modes = [("before", "transient")]
                if target in ("PUT", "DELETE"):
                    modes.append(("after", "lost_response"))
                for when, fault in modes:
                    for code, status in transient:
                        for k in range(0, budget + 2):
                            out, att, store, _all = run_faulted(ctx, cfg, call, target, k, code, status, when)
                            rep.add("fault_sequences")
                            rep.nontrivial(("c", method, target, fault, "k<=B" if k <= budget else "k>B", k > 0,
                                            retried, out[0]))
                            d = {"k": k, "code": code, "when": when, "outcome": out, "attempts": att}
                            if not retried:
                                # documented NOT retried: exactly one attempt, the failure surfaces
                                if att != 1:
                                    report(fault, "unretried_method_retried", d)
                                elif k >= 1 and out[0] != "err":
                                    report(fault, "swallowed", d)
                                elif k == 0 and (out != base or store != base_store):
                                    raise HarnessError(f"nondeterministic fault-free run of {case}")
                                continue
                            if k <= budget:
                                if out[0] == "err":
                                    report(fault, "not_masked", d)
                                elif out != base or store != base_store:
                                    report(fault, "result_changed", dict(d, store=sorted(store)))
                                elif att != k + 1:
                                    report(fault, "wrong_attempt_count", d)
                            else:
                                if out[0] != "err":
                                    # every attempt of the request failed and yet a value came back
                                    report(fault, "swallowed" if att <= k else "budget_exceeded", d)
                            if not sampled and k == 2 and target == "LIST":
                                sampled = True
                                rep.sample({"part": "c", "case": case, "config": cfg, "request": target,
                                            "failures": k, "code": code, "outcome": out, "attempts": att})
                # ---- permanent codes: every attempt would fail ----------------------
                for code in permanent:
                    out, att, store, _all = run_faulted(ctx, cfg, call, target, 10 ** 6, code, 403, "before")
                    rep.add("fault_sequences")
                    rep.nontrivial(("c", method, target, "permanent", out[0], att == 1))
                    d = {"code": code, "outcome": out, "attempts": att}
                    if out[0] != "err":
                        report("permanent", "swallowed", d)
                    elif att != 1:
                        report("permanent", "retried", d)
                    elif {k: v for k, v in store.items() if not k.startswith("<outside-table>:")} != dict(C_STORE):
                        report("permanent", "store_changed", d)
                    elif out[2] != code:
                        rep.add("c_info_permanent_error_remapped")
    # ---- multi-page listings: a transient failure on ANY page request (not only the first) must be masked ----
    # the GET succeeds and the connection breaks while the body is streaming (first k reads of the body fail): for
    # the calls that read the whole object themselves this is a transient error like any other
    from botocore.exceptions import IncompleteReadError

    with Ctx() as ctx:
        for case, method, call, targets, _r in CASES:
            if case not in ("read_file", "read_json", "read_file_with_etag"):
                continue
            ctx.restore_s3(cfg, dict(C_STORE))
            s3 = ctx.worlds[cfg].s3
            try:
                want = call(ctx.S[cfg])
            except Exception as e:  # noqa - already reported above as fault_free_operation_failed
                rep.add("body_fault_cases_skipped_fault_free_call_failed")
                continue
            for k in range(1, budget + 1):
                left = [k]

                def bf(req: Any) -> Any:
                    if left[0] > 0:
                        left[0] -= 1
                        return IncompleteReadError(actual_bytes=1, expected_bytes=2)
                    return None

                s3.body_fault = bf
                try:
                    try:
                        got: Any = ("ok", call(ctx.S[cfg]))
                    except Exception as e:  # noqa
                        got = ("err", type(e).__name__)
                finally:
                    s3.body_fault = None
                rep.add("fault_sequences")
                rep.add("body_streaming_fault_sequences")
                rep.nontrivial(("c", case, "body", k, got[0]))
                if got != ("ok", want):
                    rep.violation({"part": "c", "method": method, "request": "GET", "fault": "transient_while_streaming_the_body",
                                   "problem": "not_masked" if got[0] == "err" else "result_changed"},
                                  {"case": case, "config": cfg, "k": k, "outcome": repr(got)[:200]})
    with Ctx() as ctx:
        def listing(first_bad: int, nfail: int, code: str, status: int) -> Tuple[Any, int]:
            ENV.reset(0)
            ctx.restore_s3(cfg, dict(C_STORE, **{"d/b": b"1", "d/c/x": b"2", "d/zz": b"3"}))
            s3 = ctx.worlds[cfg].s3
            s3.page_size = 2
            n = [0]

            def gate(req: Any) -> None:
                if req.op == "LIST":
                    n[0] += 1
                    if first_bad <= n[0] < first_bad + nfail:
                        raise make_exc(code, status, "LIST")

            s3.gates, s3.after = [gate], []
            try:
                return ("ok", list(ctx.S[cfg].list_files("d/"))), n[0]
            except Exception as e:  # noqa
                return ("err", type(e).__name__), n[0]
            finally:
                s3.gates, s3.after = [], []
                s3.page_size = 1000

        base_l, base_n = listing(10 ** 9, 0, "", 0)
        if base_l[0] == "ok" and len(base_l[1]) != 5:
            # five objects were stored under "d/" a few lines above; any other answer without a
            # fault is a wrong listing, not a harness condition
            rep.violation({"part": "c", "method": "list_files", "request": "LIST", "fault": "none",
                           "problem": "fault_free_listing_wrong"}, {"config": cfg, "listing": base_l[1]})
            return rep.part()
        if base_l[0] != "ok" or base_n < 3:
            raise HarnessError(f"paged listing template: {base_l} in {base_n} requests")
        for code, status in transient:
            for first_bad in range(1, base_n + 1):
                for k in range(1, budget + 1):
                    out, att = listing(first_bad, k, code, status)
                    rep.add("fault_sequences")
                    rep.add("paged_listing_fault_sequences")
                    rep.nontrivial(("c", "list_files_paged", first_bad, k <= budget, out[0]))
                    if out[0] != "ok":
                        rep.violation({"part": "c", "method": "list_files", "request": "LIST", "fault": "transient_on_later_page",
                                       "problem": "not_masked"}, {"config": cfg, "page_request": first_bad, "k": k, "outcome": out})
                    elif sorted(out[1]) != sorted(base_l[1]):
                        rep.violation({"part": "c", "method": "list_files", "request": "LIST", "fault": "transient_on_later_page",
                                       "problem": "result_changed"},
                                      {"config": cfg, "page_request": first_bad, "k": k, "listing": out[1], "fault_free": base_l[1]})
    # informational: a not-found read is retried like a transient error (OSError subclass)
    with Ctx() as ctx:
        _o, att, _s, _a = run_faulted(ctx, cfg, lambda S: S.read_file("zz"), "GET", 0, "", 0, "before")
        rep.cov["max_c_info_attempts_for_missing_key_read"] = att
    return rep.part()


# ---------------------------------------------------------------------------
# driver
# ---------------------------------------------------------------------------
def worker(payload: Tuple[Any, ...]) -> Dict[str, Any]:
    return {"a": expand_states, "b": run_programs, "c": run_faults, "big": run_big_listing}[payload[0]](payload)


def _chunks(xs: List[Any], n: int) -> List[List[Any]]:
    n = max(1, min(n, len(xs)))
    size = (len(xs) + n - 1) // n
    return [xs[i:i + size] for i in range(0, len(xs), size)]


def run_big_listing(payload: Tuple[Any, ...]) -> Dict[str, Any]:
    """(a, sizes) listings larger than one page of the object store (1000 keys): every count around the page size x
    every configuration - list_files must return exactly the stored names below the directory, as the local backend
    does for the same files, and never a name outside the table prefix."""
    _tag, tier, seed, cfg = payload
    from dsmc.fakes3 import Obj

    rep = Report(PROP, tier, seed, LEVEL)
    prefix = dict(CONFIGS)[cfg]
    counts = (999, 1000, 1001, 2001) if tier == "quick" else (999, 1000, 1001, 1999, 2000, 2001, 3001)
    with Ctx() as ctx:
        s3 = ctx.worlds[cfg].s3
        for n in counts:
            names = ["d/f%05d" % i for i in range(n)]
            objs = {s3key(prefix, k): Obj(b"x", T0) for k in names + ["a", "e/zz", "d2/a"]}
            objs.update({k: Obj(v, T0) for k, v in foreign_of(cfg).items()})
            # neighbours that sort after the table's keys (another table, a string-prefix sibling)
            if prefix:  # without a prefix the whole bucket is the table
                objs.update({prefix + "_archive/d/f00001": Obj(b"F1", T0), prefix + "x": Obj(b"F2", T0)})
            s3.load_state(objs)
            s3.page_size = 1000
            for arg, want in (("d", sorted(names)), ("d/", sorted(names)), ("", sorted(names + ["a", "e/zz", "d2/a"]))):
                rep.add("evaluations")
                rep.add("big_listings")
                rep.nontrivial(("big-listing", cfg, n, arg))
                try:
                    got = sorted(ctx.S[cfg].list_files(arg))
                except Exception as e:  # noqa
                    got = ["<raised %s>" % type(e).__name__]
                if got != want:
                    rep.violation({"part": "a", "op": "list_files", "arg_class": "more_than_one_page", "pair": "s3-vs-spec",
                                   "problem": "listing_wrong"},
                                  {"config": cfg, "objects_below_directory": len(want), "argument": arg, "returned": len(got),
                                   "missing": sorted(set(want) - set(got))[:3], "unexpected": sorted(set(got) - set(want))[:3]})
    return rep.part()


def _bc_payloads(tier: str, seed: int) -> List[Tuple[Any, ...]]:
    maxlen = 2 if tier == "quick" else 3
    out: List[Tuple[Any, ...]] = []
    for n in (0, 1, 2, 5):
        ops = step_alphabet(n, False)
        for mode in ("raw", "buffered"):
            nch = 1 if maxlen == 2 else (4 if n < 5 else 12)
            for ch in _chunks(ops, nch):
                out.append(("b", tier, seed, n, mode, maxlen, False, ch))
    for n in BIG:
        ops = step_alphabet(n, True)
        for mode in ("raw", "buffered"):
            for ch in _chunks(ops, 2 if tier == "quick" else 4):
                out.append(("b", tier, seed, n, mode, 2, True, ch))
    for cfg, _p in CONFIGS:
        out.append(("c", tier, seed, cfg))
        out.append(("big", tier, seed, cfg))
    return out


def run(tier: str, seed: int) -> Report:
    rep = Report(PROP, tier, seed, LEVEL)
    depth = 3 if tier == "quick" else 4
    samples: Dict[str, List[Any]] = {"a": [], "b": [], "c": []}

    def take(part: Dict[str, Any]) -> None:
        for s in part.pop("samples", []):
            samples.setdefault(s.get("part", "a"), []).append(s)
        rep.merge(part)

    init: State = ((), ())
    visited: Dict[State, List[Any]] = {init: []}
    frontier: List[State] = [init]
    per_depth = [1]
    extra = _bc_payloads(tier, seed)
    for d in range(depth):
        items = [(s, visited[s]) for s in frontier]
        if len(items) < 64:
            parts = [expand_states(("a", tier, seed, items, True))]
        else:
            parts = pmap("checks.c20", "worker", [("a", tier, seed, ch, True) for ch in _chunks(items, 64)])
        new: List[State] = []
        for part in parts:
            for s2, path in part.pop("succ"):
                if s2 not in visited:
                    visited[s2] = path
                    new.append(s2)
            take(part)
        frontier = new
        per_depth.append(len(new))
    # last level: witness validation only; parts (b) and (c) ride in the same pool
    payloads = [("a", tier, seed, ch, False) for ch in _chunks([(s, visited[s]) for s in frontier], 32)] + extra
    for part in pmap("checks.c20", "worker", payloads):
        part.pop("succ", None)
        take(part)

    for p in ("a", "b", "c"):
        for s in samples[p][:2]:
            rep.sample(s, force=True)
    rep.cov["states"] = len(visited)
    rep.cov["a_states_per_depth"] = per_depth
    rep.cov["a_depth"] = depth
    rep.cov["a_alphabet_size"] = len(alphabet())
    if rep.cov.get("traces_validated_against_impl", 0) != len(visited):
        raise HarnessError("not every state's witness sequence was replayed")
    rep.cov["evaluations"] = rep.cov.get("transitions", 0) + rep.cov.get("programs", 0) + rep.cov.get("fault_sequences", 0)
    outcomes = Counter(k[0] if isinstance(k, tuple) else "?" for k in rep.distinct)
    rep.cov["distinct_observed_outcomes"] = dict(outcomes)
    rep.cov["exhaustive"] = not rep.caps
    rep.cov["rule"] = (
        "(a) BFS over all sequences of <= %d ops from a %d-op alphabet (12 methods x 6 keys / 5 listing prefixes / 3 dirs), "
        "states deduplicated by store content (files + local directories); every (state, op) transition executed on the real "
        "local backend and two real S3 backends over an in-memory S3; (b) every program of <= %d steps over the seek/read "
        "alphabet per object size, raw and buffered; (c) every (method, request kind, failure count 0..B+1, transient code), "
        "lost responses on writes, every permanent code. A case is non-trivial/distinct by its observed behaviour class: "
        "(a) (op, argument class, outcome class on each backend), (b) (mode, size class, step kind, whence, ok/err, position "
        "class), (c) (method, request, fault kind, within/over budget, outcome)" % (depth, len(alphabet()), 2 if tier == "quick" else 3))
    rep.assumptions += [
        "FakeS3 is strongly consistent; list_objects_v2 Prefix is a plain string-prefix match, as on AWS",
        "error classes are compared as {none, not-found (FileNotFoundError), other}; exact exception types are not judged",
        "a key that is a local DIRECTORY (exists('d') is True locally, False on S3 unless written 'd/'), a key below a FILE key, "
        "makedirs/delete on such paths, and empty directories left behind locally are file-system/object-store asymmetries the "
        "statement excludes ('exact keys only'): counted (a_asymmetry_tolerated), S3 is judged against its own documented spec there; "
        "sequences whose mutation is an error on the file system (write_file('d') while 'd/a' exists) are not continued "
        "(a_sequences_skipped_meaningless_on_local)",
        "list_files(p) where p is itself a FILE key: S3 returns that key, local returns [] - the statement speaks of a named "
        "directory, so this is accepted and counted (a_info_listing_of_file_key_returns_itself)",
        "write_json: any serialisation decoding to the written object is accepted by the spec oracle; the two backends must "
        "still store identical bytes",
        "seek/read: both sides must fail or both succeed (a negative position fails on both); WHICH exception class is not "
        "judged (FileIO raises OSError, S3RangeFile ValueError); invalid whence 7 is treated the same way",
        "an un-ranged GET by the seekable reader would be accepted as in-range (none observed: b_info_unranged_get)",
        "the retry budget B is read from s3_consistency.default_handler.max_retries; k<=B failures must be masked with exactly "
        "k+1 attempts of the failed request kind, k=B+1 must raise; a not-found read being retried B+1 times is not judged",
        "permanent codes: an exception must surface after exactly one attempt; its type is not judged",
        "get_modified_time is compared only fault-free vs. faulted on S3 (virtual clock), not across backends",
    ]
    return rep


# ---------------------------------------------------------------------------
# replay
# ---------------------------------------------------------------------------
def replay(case: Dict[str, Any]) -> Dict[str, Any]:
    key, det = case["key"], case.get("detail", {})
    tier, seed = case.get("tier", "quick"), case.get("seed", 0)
    rep = Report(PROP, tier, seed, LEVEL)
    if key.get("part") == "a":
        seq = [tuple(x) for x in det["sequence"]]
        with Ctx() as ctx:
            ctx.restore(((), ()))
            for op in seq[:-1]:
                for b in [ctx.L] + [ctx.S[cfg] for cfg, _p in CONFIGS]:
                    apply_op(b, op)
            st = ctx.snap_local()
            transition(ctx, rep, st, [list(x) for x in seq[:-1]], seq[-1], True)
    elif key.get("part") == "b":
        prog = tuple(tuple(s) for s in det["program"])
        # run exactly the recorded program
        from datashard.storage_backend import S3StorageBackend
        from dsmc.fakes3 import Obj, S3World
        from dsmc.tables import fresh_dir

        n = det["size"]
        base = fresh_dir("c20b-replay")
        path = os.path.join(base, "obj")
        with open(path, "wb") as f:
            f.write(content_of(n))
        with S3World(bucket=BUCKET) as w:
            S = S3StorageBackend(bucket=BUCKET, prefix=PREFIX)
            k = s3key(PREFIX, "obj")
            w.s3.load_state({k: Obj(content_of(n), T0)})
            ranges: List[Any] = []
            w.s3.gates.append(lambda req: ranges.append(req.extra) if req.op == "GET" else None)
            run_program(rep, {"s3": w.s3, "S": S, "key": k, "path": path, "ranges": ranges}, n, det["mode"], prog)
    else:
        rep.merge(run_faults(("c", tier, seed, det.get("config", "s3"))))
    hit = [v for v in rep.violations.values() if v["key"] == key]
    return {"violated": bool(hit), "matching": hit[:1], "all_keys": [v["key"] for v in rep.violations.values()][:20]}
