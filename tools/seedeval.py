#!/usr/bin/env python3
"""Validate and evaluate one seeded change.

usage: tools/seedeval.py <PROP> <LETTER> [--checks C01,C08] [--tier quick] [--mode apply|path]

1. fresh scratch worktree of /repo HEAD; the demo must PASS there;
2. apply the diff there; the repository's test suite must still give 143 passed / 7 failed; the demo must FAIL;
3. run the named checks against the changed tree (mode apply: git -C /repo apply ... checkout; mode path: PYTHONPATH to the
   scratch worktree) and record which report a VIOLATION;
4. write /verif/seeded/<PROP>-<LETTER>/{patch.diff, demo.py, meta.json}; remove the scratch worktree.
"""
import argparse, json, os, re, shutil, subprocess, sys, time

ap = argparse.ArgumentParser()
ap.add_argument("prop"); ap.add_argument("letter")
ap.add_argument("--checks", default=None)
ap.add_argument("--tier", default="quick")
ap.add_argument("--mode", default="path")
ap.add_argument("--src", default=None, help="directory holding <LETTER>.diff and <LETTER>_demo.py")
a = ap.parse_args()
src = a.src or f"/tmp/wt/out/{a.prop}"
diff = os.path.join(src, f"{a.letter}.diff")
demo = os.path.join(src, f"{a.letter}_demo.py")
notes = os.path.join(src, {"C": "NOTES2.md", "D": "NOTES2.md", "E": "NOTES3.md", "F": "NOTES3.md", "G": "NOTES4.md", "H": "NOTES4.md", "I": "NOTES5.md", "J": "NOTES5.md"}.get(a.letter, "NOTES.md"))
checks = (a.checks or a.prop).split(",")
wt = f"/tmp/wt/eval-{a.prop}-{a.letter}-{os.getpid()}"
meta = {"property": a.prop, "id": f"{a.prop}-{a.letter}", "checks_run": {}, "tier": a.tier, "mode": a.mode}

def sh(cmd, **kw):
    return subprocess.run(cmd, shell=True, capture_output=True, text=True, **kw)

sh(f"git -C /repo worktree add -q --detach {wt} HEAD")
try:
    env = f"PYTHONPATH={wt}/src PYTHONHASHSEED=0"
    r0 = sh(f"cd {wt} && {env} timeout 600 /venv/bin/python {demo}")
    meta["demo_without_change_rc"] = r0.returncode
    ap_ = sh(f"git -C {wt} apply {diff}")
    if ap_.returncode != 0:
        meta["error"] = "diff does not apply to HEAD: " + ap_.stderr[-300:]
        print(json.dumps(meta, indent=1)); sys.exit(2)
    t = sh(f"cd {wt} && {env} timeout 900 /venv/bin/python -m pytest -q -p no:cacheprovider --timeout=900 -q tests 2>&1 | tail -1")
    meta["test_suite_with_change"] = t.stdout.strip()
    r1 = sh(f"cd {wt} && {env} timeout 600 /venv/bin/python {demo}")
    meta["demo_with_change_rc"] = r1.returncode
    meta["demo_with_change_tail"] = (r1.stdout + r1.stderr)[-400:]
    ok = ("143 passed" in t.stdout and "7 failed" in t.stdout and r0.returncode == 0 and r1.returncode != 0)
    meta["valid"] = ok
    if a.mode == "apply":
        sh(f"git -C /repo apply {diff}")
    try:
        for c in checks:
            t0 = time.time()
            if a.mode == "apply":
                cmd = f"cd /verif && DSMC_EVIDENCE_DIR=/tmp/wt/evid DSMC_REPLAY_DIR=/tmp/wt/evid/replays timeout -k 1 3000 ./check {c} --tier {a.tier}"
            else:
                cmd = (f"cd /verif && DSMC_EVIDENCE_DIR=/tmp/wt/evid DSMC_REPLAY_DIR=/tmp/wt/evid/replays DSMC_REEXEC=1 PYTHONHASHSEED=0 TZ=UTC PYTHONDONTWRITEBYTECODE=1 "
                       f"PYTHONPATH={wt}/src:/verif timeout -k 1 3000 /venv/bin/python /verif/check {c} --tier {a.tier}")
            r = sh(cmd + " < /dev/null")
            keys = re.findall(r"^  key: (.*)$", r.stdout, re.M)
            meta["checks_run"][c] = {"rc": r.returncode, "violation_keys": keys[:8], "n_violation_lines": r.stdout.count("VIOLATION property="),
                                     "wall_s": round(time.time() - t0, 1), "tail": r.stdout.strip().splitlines()[-1][:300] if r.stdout.strip() else r.stderr[-300:]}
    finally:
        if a.mode == "apply":
            sh("git -C /repo checkout -- .")
    meta["detected_by"] = [c for c, v in meta["checks_run"].items() if v["rc"] == 1]
    out = f"/verif/seeded/{a.prop}-{a.letter}"
    os.makedirs(out, exist_ok=True)
    shutil.copy(diff, os.path.join(out, "patch.diff"))
    shutil.copy(demo, os.path.join(out, "demo.py"))
    if os.path.exists(notes):
        txt = open(notes).read()
        meta["needs_to_manifest_notes_excerpt"] = txt[:1500]
    json.dump(meta, open(os.path.join(out, "meta.json"), "w"), indent=1)
    print(json.dumps({k: v for k, v in meta.items() if k != "needs_to_manifest_notes_excerpt"}, indent=1))
finally:
    sh(f"git -C /repo worktree remove --force {wt}")
    # evidence files were overwritten by runs on the changed tree: the caller re-runs the checks on the clean tree
