"""C14 - reads fail closed: damaged or missing files raise, never yield partial rows.

Engine E3 (DESIGN.md 2.4), exhaustive damage / fault enumeration on the real
read path.  A 2-snapshot table with 3 data files (snapshot 1 = one transaction
appending two files, snapshot 2 = one more append) is built once per worker on
the local backend (thorough: also on CAS-S3 over the in-memory FakeS3).  For
EVERY file reachable from the current snapshot (current metadata json, manifest
list, both manifests, the three data files) and EVERY damage of the catalogue

    deleted | zero_length | truncated (every structural boundary of the format:
    Avro magic / header / sync / block header / mid block / block end, parquet
    magic / pages / footer / footer length / trailing magic, plus 1, 1/4, 1/2,
    3/4, len-1) | garbage (pseudo-random bytes, text) | region_overwrite (one
    region per structure, two fills) | byte_flip (masks 0x01 and 0xff;
    thorough: EVERY byte of every data file and, on the local backend, of
    every metadata-plane file; quick: every byte (0x01) of one data file;
    otherwise K evenly spaced offsets plus the structural offsets)
    | sibling_swap (every other file of the same kind)

and for EVERY storage call of every read (fault raised before the effect: once,
persistently, on S3 also a permanent AccessDenied) the damaged table is read
through every read API configuration

    scan, scan(parallel=2), scan(filter), scan(columns), scan_batches(1),
    scan_batches(10000), iter_records  x verify_checksums in {True, False}
    and row_count

on a handle opened BEFORE the damage.  Oracle: the call raises (generators are
consumed completely), or returns exactly the undamaged answer (computed by the
independent reader dsmc.reader).  Whether a damaged file is "unparseable" is
decided by the independent parser; parseable damage that changes the logical
content is out of the statement's scope (counted, not judged), except for data
files under verify_checksums=True where ANY byte change must raise.
"""
from __future__ import annotations

import hashlib
import io
import json
import os
from collections import Counter
from typing import Any, Dict, Iterable, List, Optional, Tuple

from dsmc import reader
from dsmc.env import ENV
from dsmc.faults import Call, FaultPlan, os_error, path_class, s3_permanent, s3_transient
from dsmc.report import HarnessError, Report, pmap
from dsmc.tables import fresh_dir, row, schema, use_local

PROP = "C14"
LEVEL = "fault_enumeration"
S3_NAME = "tbl"

FILTER = {"a": (">=", 12)}  # prunes file 1, keeps two rows of file 2 and file 3 entirely
COLUMNS = ["s"]
APIS = ["scan", "scan_parallel2", "scan_filter", "scan_columns", "scan_batches_1", "scan_batches_10000",
        "iter_records", "row_count"]
# verify: True / False are passed explicitly; "default" omits the argument (verification is ON by default)
CONFIGS: List[Tuple[str, Any]] = [(a, v) for a in APIS if a != "row_count" for v in (True, False, "default")] + [
    ("row_count", None)]
DAMAGE_NAME = {"deleted": "deleted", "truncate": "truncated", "garbage": "garbage", "region": "region_overwrite",
               "flip": "byte_flip", "sibling": "sibling_swap", "fault": "fault"}
FLIP_MASKS = (0x01, 0xFF)
K_QUICK, K_S3 = 48, 64


# ---------------------------------------------------------------------------
# the read APIs
# ---------------------------------------------------------------------------
def call_api(t: Any, api: str, verify: Optional[bool]) -> Tuple[str, Any]:
    """Run one read API to completion.  ('rows', canonical sorted rows) | ('count', n)."""
    if api == "row_count":
        return ("count", int(t.row_count()))
    kw: Dict[str, Any] = {} if verify == "default" else {"verify_checksums": verify}
    if api == "scan":
        rows = t.scan(**kw)
    elif api == "scan_parallel2":
        rows = t.scan(parallel=2, **kw)
    elif api == "scan_filter":
        rows = t.scan(filter=dict(FILTER), **kw)
    elif api == "scan_columns":
        rows = t.scan(columns=list(COLUMNS), **kw)
    elif api in ("scan_batches_1", "scan_batches_10000"):
        rows = []
        for b in t.scan_batches(batch_size=int(api.rsplit("_", 1)[1]), **kw):
            rows.extend(b)
    elif api == "iter_records":
        rows = [r for r in t.iter_records(**kw)]
    else:
        raise HarnessError(f"unknown api {api}")
    return ("rows", tuple(reader.canon_rows(rows)))


def reference(rows: List[Dict[str, Any]], api: str) -> Tuple[str, Any]:
    """The answer of `api` for a table holding exactly `rows` - plain Python, no datashard."""
    if api == "row_count":
        return ("count", len(rows))
    if api == "scan_filter":
        rows = [r for r in rows if r["a"] is not None and r["a"] >= 12]
    elif api == "scan_columns":
        rows = [{c: r[c] for c in COLUMNS} for r in rows]
    return ("rows", tuple(reader.canon_rows(rows)))


def shape(got: Tuple[str, Any], want: Tuple[str, Any], older: Optional[Tuple[str, Any]]) -> str:
    """Name of a wrong, non-raising answer (`older`: the previous snapshot's answer, for metadata-level damage)."""
    if got == older:
        return "returned_older_version"
    if got[0] == "count":
        return "returned_empty" if got[1] == 0 else ("returned_subset" if got[1] < want[1] else "returned_wrong_count")
    if not got[1]:
        return "returned_empty"
    rest = Counter(want[1])
    rest.subtract(Counter(got[1]))
    if all(v >= 0 for v in rest.values()):
        return "returned_subset"
    return "returned_altered_rows"


# ---------------------------------------------------------------------------
# file formats: structure offsets, independent parse
# ---------------------------------------------------------------------------
def _varint(b: bytes, i: int) -> Tuple[int, int]:
    n = s = 0
    while True:
        c = b[i]
        i += 1
        n |= (c & 0x7F) << s
        s += 7
        if not c & 0x80:
            return (n >> 1) ^ -(n & 1), i


def avro_struct(b: bytes) -> Tuple[int, List[Tuple[int, int, int, int]]]:
    """(end of header incl. sync marker, [(block start, end of block header, end of block data, end of sync)])"""
    if b[:4] != b"Obj\x01":
        raise HarnessError("not an avro container")
    i = 4
    while True:
        cnt, i = _varint(b, i)
        if cnt == 0:
            break
        if cnt < 0:
            _sz, i = _varint(b, i)
            cnt = -cnt
        for _ in range(cnt):
            ln, i = _varint(b, i)
            i += ln
            ln, i = _varint(b, i)
            i += ln
    hdr_end = i + 16
    blocks = []
    i = hdr_end
    while i < len(b):
        st = i
        _cnt, i = _varint(b, i)
        sz, i = _varint(b, i)
        blocks.append((st, i, i + sz, i + sz + 16))
        i += sz + 16
    if i != len(b) or not blocks:
        raise HarnessError("avro structure walk does not end at EOF")
    return hdr_end, blocks


def structure(cls: str, raw: bytes) -> Dict[str, Any]:
    """Structural cut points and (offset, length) regions of a file."""
    n = len(raw)
    cuts = {1, 2, n // 4, n // 2, 3 * n // 4, n - 1}
    regions: List[Tuple[str, int, int]] = []
    if cls in ("manifest", "manifest_list"):
        hdr_end, blocks = avro_struct(raw)
        cuts |= {3, 4, hdr_end // 2, hdr_end - 16, hdr_end - 1, hdr_end}
        regions += [("magic", 0, 4), ("header_schema", hdr_end // 2, 16), ("header_sync", hdr_end - 16, 16)]
        for st, he, de, en in blocks:
            cuts |= {st + 1, he, (he + de) // 2, de - 1, de, en - 1}
            regions += [("block_header", st, he - st), ("block_data", (he + de) // 2, 16), ("block_sync", de, 16)]
    elif cls == "data":
        if raw[:4] != b"PAR1" or raw[-4:] != b"PAR1":
            raise HarnessError("not a parquet file")
        flen = int.from_bytes(raw[-8:-4], "little")
        fst = n - 8 - flen
        if fst <= 4:
            raise HarnessError("parquet footer length out of range")
        cuts |= {3, 4, fst // 2, fst - 1, fst, fst + flen // 2, n - 8, n - 4}
        regions += [("magic", 0, 4), ("first_page", 4, 16), ("page_data", fst // 2, 16), ("footer", fst, 16),
                    ("footer_stats", fst + flen // 2, 16), ("footer_length", n - 8, 4), ("trailing_magic", n - 4, 4)]
    else:
        k = raw.find(b'"snapshots"')
        c = raw.find(b'"current_snapshot_id"')
        cuts |= {x for x in (k, k + 30, c, c + 25) if 0 < x < n}
        regions += [("json_head", 0, 16), ("json_current_snapshot_id", max(c, 0), 40), ("json_snapshots", max(k, 0), 40),
                    ("json_tail", n - 16, 16)]
    return {"cuts": sorted(c for c in cuts if 0 < c < n), "regions": regions}


def parse(cls: str, data: Optional[bytes]) -> Tuple[str, Any]:
    """Independent parse (dsmc.reader): ('missing'|'unparseable', None) | ('ok', logical content)."""
    if data is None:
        return ("missing", None)
    view = _OneFile(data)
    try:
        if cls == "metadata":
            md = reader.read_metadata(view, "f")
            md.pop("__file__", None)
            return ("ok", json.dumps(md, sort_keys=True))
        if cls == "manifest_list":
            return ("ok", repr(reader.read_manifest_list(view, "f")))
        if cls == "manifest":
            # what a read consumes of a manifest: the data-file records.  The per-entry bookkeeping (status, adding
            # snapshot, sequence numbers) decides nothing about the rows a scan returns, so damage confined to it
            # leaves the logical content - and therefore the required answer - unchanged
            return ("ok", repr([e.get("data_file") for e in reader.read_manifest(view, "f")]))
        return ("ok", repr(reader.canon_rows(reader.read_parquet(view, "f"))))
    except reader.ReadError:
        return ("unparseable", None)


class _OneFile:
    def __init__(self, data: bytes):
        self.data = data

    def get(self, rel: str) -> Optional[bytes]:
        return self.data


# ---------------------------------------------------------------------------
# damage catalogue (specs are jsonable; bytes are derived, so cases can be replayed)
# ---------------------------------------------------------------------------
def _garbage(kind: str, n: int) -> bytes:
    if kind == "text":
        return (b"this is not a table file\n" * (n // 25 + 1))[:max(n, 25)]
    out = b""
    i = 0
    while len(out) < max(n, 64):
        out += hashlib.sha256(b"c14-garbage-%d" % i).digest()
        i += 1
    return out[:max(n, 64)]


def apply_spec(raw: bytes, spec: Tuple[Any, ...], siblings: List[bytes]) -> Optional[bytes]:
    k = spec[0]
    if k == "deleted":
        return None
    if k == "truncate":
        return raw[:spec[1]]
    if k == "garbage":
        return _garbage(spec[1], len(raw))
    if k == "region":
        _k, _name, off, ln, fill = spec
        return raw[:off] + bytes([fill]) * len(raw[off:off + ln]) + raw[off + ln:]
    if k == "flip":
        b = bytearray(raw)
        b[spec[1]] ^= spec[2]
        return bytes(b)
    if k == "sibling":
        return siblings[spec[1]]
    raise HarnessError(f"bad damage spec {spec!r}")


def damage_name(spec: Tuple[Any, ...]) -> str:
    if spec[0] == "truncate" and spec[1] == 0:
        return "zero_length"
    return DAMAGE_NAME[spec[0]]


def damage_specs(cls: str, raw: bytes, nsib: int, flips: str, k: int) -> List[Tuple[Any, ...]]:
    """flips: 'all' = every byte x both masks; 'all01' = every byte x mask 0x01 plus the spaced offsets x 0xff;
    'spaced' = K evenly spaced offsets + the structural offsets x both masks."""
    st = structure(cls, raw)
    n = len(raw)
    out: List[Tuple[Any, ...]] = [("deleted",), ("truncate", 0)]
    out += [("truncate", c) for c in st["cuts"]]
    out += [("garbage", "random"), ("garbage", "text")]
    for name, off, ln in st["regions"]:
        for fill in (0x00, 0xA5):
            out.append(("region", name, off, ln, fill))
    s = {int(i * (n - 1) / (k - 1)) for i in range(k)} | set(st["cuts"]) | {off for _n, off, _l in st["regions"]}
    spaced = sorted(o for o in s if 0 <= o < n)
    for o in range(n):
        for m in FLIP_MASKS:
            if flips == "all" or (flips == "all01" and m == 0x01) or o in s:
                out.append(("flip", o, m))
    if not spaced:
        raise HarnessError("no flip offsets")
    out += [("sibling", j) for j in range(nsib)]
    return out


# ---------------------------------------------------------------------------
# the table under test
# ---------------------------------------------------------------------------
def _fixed_len_name(name: str, total: int = 80) -> str:
    """Directory name padded so that the table root has the same length in every process: the root is stored
    in the metadata json ("location"), and its length would otherwise move every offset-based damage."""
    from dsmc.report import scratch_root

    pad = total - len(os.path.join(scratch_root(), name))
    if pad < 0:
        raise HarnessError("scratch path too long for a fixed-length table root")
    return name + "_" * pad


class Ctx:
    """The 2-snapshot table on one backend, a handle opened before any damage, and the
    harness-side (plain os / dict) access used to plant damage."""

    def __init__(self, backend: str, tag: str, orphan_tip: bool = False):
        from datashard import create_table, load_table

        self.backend = backend
        self.world: Any = None
        ENV.reset(0)
        if backend == "local":
            from dsmc.localfs import install_local_seams

            install_local_seams()  # file mtimes follow the virtual clock
            use_local()
            self.root = fresh_dir(_fixed_len_name(f"c14-{tag}"))
            self.location = self.root
            self.view: Any = reader.LocalView(self.root)
        else:
            from dsmc.fakes3 import S3World

            self.world = S3World()
            self.world.__enter__()
            self.location = S3_NAME
            self.view = reader.S3View(self.world.s3, S3_NAME)
        t = create_table(self.location, schema())
        with t.new_transaction() as tx:
            tx.append_data([row(i) for i in range(0, 4)])
            tx.append_data([row(i) for i in range(10, 14)])
        t.append_records([row(i) for i in range(20, 24)])
        if orphan_tip:
            # leftover of a committer that died before flipping the pointer: an uncommitted HIGHER metadata version
            # (here: the table without its latest snapshot). Nothing may ever answer a read from it.
            st = t.storage
            ptr = st.read_file("metadata.version-hint.text").decode().strip()
            md = json.loads(st.read_file(f"metadata/{ptr}").decode())
            ver = int(ptr[1:ptr.index("-")])
            keep = md["snapshots"][:-1]
            md["snapshots"] = keep
            md["current_snapshot_id"] = keep[-1]["snapshot_id"]
            md["snapshot_log"] = [x for x in md["snapshot_log"] if x["snapshot_id"] in {k["snapshot_id"] for k in keep}]
            md["last_updated_ms"] += 1
            st.write_file(f"metadata/v{ver + 1}-0badc0de.metadata.json", json.dumps(md, indent=2).encode())
        self.t = load_table(self.location)

        ts = reader.TableState(self.view)
        if ts.errors or len(ts.snaps) != 2:
            raise HarnessError(f"template table unreadable: {ts.errors}")
        cur = ts.snaps[ts.current_id]
        old = [s for i, s in ts.snaps.items() if i != ts.current_id][0]
        if len(cur.data_files) != 3 or len(cur.manifests) != 2:
            raise HarnessError("template table does not have 2 manifests / 3 data files")
        mdname = "metadata/" + ts.md["__file__"]
        self.files: List[Tuple[str, str]] = ([(mdname, "metadata"), (cur.mlist, "manifest_list")]
                                             + [(m, "manifest") for m in cur.manifests]
                                             + [(d, "data") for d in cur.data_files])
        older_md = sorted(f for _v, f in reader.metadata_files(self.view) if "metadata/" + f != mdname)
        self.sib: Dict[str, List[str]] = {
            "metadata": ["metadata/" + f for f in older_md[-1:]],
            "manifest_list": [old.mlist],
        }
        self.orig: Dict[str, bytes] = {}
        for rel, _c in self.files + [(s, "") for ss in self.sib.values() for s in ss]:
            b = self.view.get(rel)
            if b is None:
                raise HarnessError(f"{rel} missing in the template")
            self.orig[rel] = b
        rows_cur = [r for d in cur.data_files for r in reader.read_parquet(self.view, d)]
        rows_old = [r for d in old.data_files for r in reader.read_parquet(self.view, d)]
        self.want = {api: reference(rows_cur, api) for api in APIS}
        self.older = {api: reference(rows_old, api) for api in APIS}
        for api, v in CONFIGS:  # the library agrees with the independent reference on the undamaged table
            got = call_api(self.t, api, v)
            if got != self.want[api]:
                raise HarnessError(f"undamaged {api}(verify={v}) differs from the independent reference: {got!r}")

    def siblings(self, idx: int) -> List[str]:
        rel, cls = self.files[idx]
        if cls in self.sib:
            return self.sib[cls]
        return [r for r, c in self.files if c == cls and r != rel]

    # ---- harness-side store access ------------------------------------------------
    def put(self, rel: str, data: Optional[bytes]) -> None:
        if self.backend == "local":
            p = os.path.join(self.root, rel)
            if data is None:
                if os.path.exists(p):
                    os.remove(p)
                return
            with open(p, "wb") as f:
                f.write(data)
            os.utime(p, (ENV.clock, ENV.clock))
        else:
            from dsmc.fakes3 import Obj

            key = f"{S3_NAME}/{rel}"
            if data is None:
                self.world.s3.objs.pop(key, None)
            else:
                self.world.s3.objs[key] = Obj(data, ENV.clock)

    def attach(self, plan: FaultPlan) -> Any:
        return plan.local(self.root) if self.backend == "local" else plan.s3(self.world.s3, S3_NAME)

    def close(self) -> None:
        if self.world is not None:
            self.world.__exit__(None, None, None)


def run_api(ctx: Ctx, api: str, verify: Optional[bool], plan: FaultPlan) -> Tuple[str, Any]:
    with ctx.attach(plan):
        try:
            return ("ok", call_api(ctx.t, api, verify))
        except HarnessError:
            raise
        except Exception as e:  # noqa - any exception type is a correct "raise"
            return ("raise", type(e).__name__)


READ_FNS = ("open", "pq_read", "GET")


# ---------------------------------------------------------------------------
# judging
# ---------------------------------------------------------------------------
class Judge:
    def __init__(self, rep: Report, ctx: Ctx):
        self.rep, self.ctx = rep, ctx
        self.fails: Dict[Tuple[Any, ...], Dict[str, Any]] = {}

    def fail(self, file_class: str, damage: str, api: str, verify: Optional[bool], problem: str, detail: Dict[str, Any]) -> None:
        k = (self.ctx.backend, file_class, damage, api, verify, problem)
        if k in self.fails:
            self.fails[k]["count"] += 1
        else:
            self.fails[k] = {"count": 1, "detail": detail}

    def damage_case(self, idx: int, spec: Tuple[Any, ...]) -> None:
        ctx, rep = self.ctx, self.rep
        rel, cls = ctx.files[idx]
        raw = ctx.orig[rel]
        new = apply_spec(raw, spec, [ctx.orig[s] if s in ctx.orig else ctx.view.get(s) for s in ctx.siblings(idx)])
        if new == raw:
            rep.add("damage_noop_skipped")
            return
        st, content = parse(cls, new)
        if st == "ok":
            st = "same_content" if content == parse(cls, raw)[1] else "changed_content"
        dname = damage_name(spec)
        rep.add("damaged_files")
        rep.add(f"independent_parser_{st}")
        ctx.put(rel, new)
        try:
            for api, verify in CONFIGS:
                rec = FaultPlan()
                out = run_api(ctx, api, verify, rec)
                touched = any(c.path == rel and c.fn in READ_FNS for c in rec.calls)
                self.judge(idx, spec, dname, st, api, verify, out, touched)
        finally:
            ctx.put(rel, raw)

    def judge(self, idx: int, spec: Tuple[Any, ...], dname: str, st: str, api: str, verify: Optional[bool],
              out: Tuple[str, Any], touched: bool) -> None:
        ctx, rep = self.ctx, self.rep
        rel, cls = ctx.files[idx]
        want = ctx.want[api]
        rep.add("evaluations")
        must_detect = cls == "data" and verify in (True, "default")  # checksum on (explicitly or by default): ANY byte change must raise
        in_scope = st in ("missing", "unparseable") or must_detect or st == "same_content"
        detail = {"backend": ctx.backend, "file_index": idx, "file": rel, "file_class": cls, "spec": list(spec),
                  "independent_parser": st, "api": api, "verify": verify, "file_read_by_call": touched}
        if in_scope:
            rep.add("distinct_nontrivial")
        if out[0] == "raise":
            rep.add("raised")
            oc = "raised"
        elif out[1] == want:
            if must_detect and touched:
                self.fail(cls, dname, api, verify, "byte_change_not_detected", dict(detail, observed="exact undamaged answer"))
                oc = "undetected"
            else:
                oc = "exact_answer_touched" if touched else "exact_answer_untouched"
                rep.add(oc)
        elif in_scope:
            prob = shape(out[1], want, ctx.older[api] if cls == "metadata" else None)
            self.fail(cls, dname, api, verify, prob, dict(detail, expected=_brief(want), observed=_brief(out[1])))
            oc = prob
        else:
            # parseable damage with different logical content (a flipped digit in a JSON number, a flipped byte
            # in an avro string, a header-only avro prefix, parquet that still decodes with verification off)
            rep.add("out_of_scope_parseable")
            if cls == "data":
                rep.add("out_of_scope_unverified_data_decodes_differently")
            oc = "out_of_scope"
            if len(rep.samples) < 5 and spec[0] in ("truncate", "sibling") and api == "scan" and verify:
                rep.sample({"out_of_scope_example": detail, "observed": _brief(out[1])})
        rep.nontrivial((ctx.backend, cls, dname, st, api, verify, oc))

    def outage_cases(self) -> None:
        """Several requests of one read fail together (expired credentials, a revoked policy, an outage): every
        request of the named kinds is refused with a permanent / transient code for the whole call."""
        from botocore.exceptions import ClientError

        ctx, rep = self.ctx, self.rep
        fake = ctx.world.s3
        scen = [("all_requests", None), ("head_and_list", ("HEAD", "LIST")), ("head_only", ("HEAD",)),
                ("list_only", ("LIST",)), ("get_only", ("GET",))]
        codes = [("AccessDenied", 403), ("403", 403), ("SlowDown", 503)]
        for sname, kinds in scen:
            for code, status in codes:
                for api, verify in CONFIGS:
                    n = [0]

                    def gate(req: Any, kinds: Any = kinds, code: str = code, status: int = status) -> None:
                        if kinds is None or req.op in kinds:
                            n[0] += 1
                            raise ClientError({"Error": {"Code": code, "Message": "refused"},
                                               "ResponseMetadata": {"HTTPStatusCode": status}}, req.op)

                    ENV.restore(ctx.env0) if hasattr(ctx, "env0") else None
                    fake.gates.append(gate)
                    try:
                        try:
                            out = ("ok", call_api(ctx.t, api, verify))
                        except HarnessError:
                            raise
                        except Exception as e:  # noqa
                            out = ("raise", type(e).__name__)
                    finally:
                        fake.gates.remove(gate)
                    rep.add("evaluations")
                    rep.add("outage_cases")
                    if n[0] == 0:
                        rep.add("outage_scenarios_not_touching_the_call")
                        continue
                    rep.add("distinct_nontrivial")
                    rep.nontrivial((ctx.backend, "outage", sname, code, api, verify, out[0]))
                    if out[0] == "raise":
                        rep.add("raised")
                    elif out[1] != ctx.want[api]:
                        prob = shape(out[1], ctx.want[api], None)
                        self.fail("any", f"outage_{sname}", api, verify, prob,
                                  {"backend": ctx.backend, "scenario": sname, "code": code, "requests_refused": n[0],
                                   "expected": _brief(ctx.want[api]), "observed": _brief(out[1])})
                    else:
                        rep.add("outage_answered_exactly_without_the_refused_requests")

    def fault_cases(self, api: str, verify: Optional[bool]) -> None:
        ctx, rep = self.ctx, self.rep
        rec = FaultPlan()
        base = run_api(ctx, api, verify, rec)
        if base != ("ok", ctx.want[api]):
            raise HarnessError(f"fault-free {api} run gave {base!r}")
        kinds = [("fault_once", os_error(), False), ("fault_persistent", os_error(), True)]
        if ctx.backend == "s3":
            kinds = [("fault_once", s3_transient(), False), ("fault_persistent", s3_transient("SlowDown", 503), True),
                     ("fault_permanent", s3_permanent(), True)]
        rep.add("storage_calls_numbered", len(rec.calls))
        for c in rec.calls:
            for kname, exc, persistent in kinds:
                plan = FaultPlan(at=c.key, exc=exc, persistent=persistent)
                out = run_api(ctx, api, verify, plan)
                if not plan.fired:
                    raise HarnessError(f"fault position {c.label()} not reached in {api}(verify={verify})")
                rep.add("evaluations")
                rep.add("fault_runs")
                rep.add("distinct_nontrivial")
                detail = {"backend": ctx.backend, "api": api, "verify": verify, "fault": kname, "call": c.label(),
                          "call_key": [list(c.key[0]), c.key[1]], "attempts_failed": len(plan.fired)}
                if out[0] == "raise":
                    rep.add("raised")
                    oc = "raised"
                elif out[1] == ctx.want[api]:
                    rep.add("exact_answer_fault_masked")
                    oc = "masked"
                else:
                    oc = shape(out[1], ctx.want[api], ctx.older[api] if c.cls in ("metadata", "pointer") else None)
                    self.fail(c.cls, kname, api, verify, oc,
                              dict(detail, expected=_brief(ctx.want[api]), observed=_brief(out[1])))
                rep.nontrivial((ctx.backend, c.cls, c.fn, kname, api, verify, oc))
                if kname == "fault_once" and c.cls == "manifest" and c.fn in ("open", "GET") and len(rep.samples) < 2:
                    rep.sample(dict(detail, outcome=out if out[0] == "raise" else "exact answer"))


def _brief(ans: Any) -> Any:
    if ans[0] == "count":
        return {"count": ans[1]}
    return {"n_rows": len(ans[1]), "first_rows": [list(r) for r in ans[1][:3]]}


# ---------------------------------------------------------------------------
# workers
# ---------------------------------------------------------------------------
def worker(payload: Tuple[Any, ...]) -> Dict[str, Any]:
    kind, tier, seed, backend = payload[:4]
    rep = Report(PROP, tier, seed, LEVEL)
    ctx = Ctx(backend, f"{kind}-{backend}-{os.getpid()}", orphan_tip=(kind == "outage"))
    j = Judge(rep, ctx)
    try:
        if kind == "damage":
            _k, _t, _s, _b, idx, chunk, nchunks = payload
            rel, cls = ctx.files[idx]
            specs = damage_specs(cls, ctx.orig[rel], len(ctx.siblings(idx)), all_flips(tier, backend, cls, idx),
                                 K_QUICK if tier == "quick" else K_S3)
            for spec in specs[chunk::nchunks]:
                j.damage_case(idx, spec)
            if chunk == 0:
                rep.cov.setdefault("damages_per_file", {})[f"{backend}:{cls}:{idx}:{len(ctx.orig[rel])}B"] = len(specs)
                rep.sample({"backend": backend, "file": rel, "file_class": cls, "bytes": len(ctx.orig[rel]),
                            "damages": len(specs), "structure": structure(cls, ctx.orig[rel])["cuts"][:12],
                            "read_apis": len(CONFIGS)})
        elif kind == "outage":
            j.outage_cases()
        else:
            for api, verify in payload[4]:
                j.fault_cases(api, verify)
    finally:
        ctx.close()
    out = rep.part()
    out["fails"] = [(list(k), v) for k, v in j.fails.items()]
    return out


QUICK_FULL_FLIP_FILE = 5  # the second data file (partially matched by FILTER)


def all_flips(tier: str, backend: str, cls: str, idx: int) -> str:
    """Which bytes are flipped.  thorough: every byte x both masks of every data file (both backends) and of every
    metadata-plane file (local); quick: every byte x 0x01 of one data file; spaced + structural offsets otherwise."""
    if tier == "thorough":
        return "all" if (cls == "data" or backend == "local") else "spaced"
    return "all01" if idx == QUICK_FULL_FLIP_FILE else "spaced"


def payloads(tier: str, seed: int) -> List[Tuple[Any, ...]]:
    out: List[Tuple[Any, ...]] = []
    backends = ["local"] if tier == "quick" else ["local", "s3"]
    for b in backends:
        for idx in range(7):
            n = (6 if b == "local" else 3) if tier == "thorough" else (8 if idx == QUICK_FULL_FLIP_FILE else 1)
            for ch in range(n):
                out.append(("damage", tier, seed, b, idx, ch, n))
        cfgs = list(CONFIGS)
        step = 5 if tier == "quick" else 3
        for i in range(0, len(cfgs), step):
            out.append(("faults", tier, seed, b, cfgs[i:i + step]))
    out.append(("outage", tier, seed, "s3"))
    if seed:
        k = seed % len(out)
        out = out[k:] + out[:k]  # the seed only rotates the enumeration order
    return out


# ---------------------------------------------------------------------------
# violation keys: one defect -> as few keys as possible
# ---------------------------------------------------------------------------
def collapse(fails: List[Tuple[List[Any], Dict[str, Any]]]) -> List[Tuple[Dict[str, Any], Dict[str, Any], int]]:
    """Group raw failures (backend, file_class, damage, api, verify, problem) by (file_class, damage, problem);
    api/verify collapse to 'all'/'any' when every applicable configuration fails."""
    groups: Dict[Tuple[str, str, str], Dict[Tuple[str, Any], Dict[str, Any]]] = {}
    for k, v in fails:
        backend, fc, dmg, api, verify, prob = k
        g = groups.setdefault((fc, dmg, prob), {})
        e = g.setdefault((api, verify), {"count": 0, "detail": v["detail"], "backends": set()})
        e["count"] += v["count"]
        e["backends"].add(backend)
    out = []
    for (fc, dmg, prob), g in sorted(groups.items()):
        app = [c for c in CONFIGS if not (fc == "data" and c[0] == "row_count")]
        got = set(g)
        backends = set().union(*(e["backends"] for e in g.values()))
        extra = {"backend": "s3"} if backends == {"s3"} else {}

        def emit(api: str, verify: Any, members: List[Tuple[str, Any]]) -> None:
            key = dict({"file_class": fc, "damage": dmg, "api": api, "verify": verify, "problem": prob}, **extra)
            cnt = sum(g[m]["count"] for m in members)
            det = dict(g[members[0]]["detail"], configurations=[list(m) for m in members], backends=sorted(backends))
            out.append((key, det, cnt))

        done = False
        for vsel, vname in ((None, "any"), (True, True), (False, False)):
            want = {c for c in app if vsel is None or c[1] == vsel}
            if got == want:
                emit("all", vname, sorted(got, key=repr))
                done = True
                break
        if done:
            continue
        for api in APIS:
            ms = sorted((c for c in got if c[0] == api), key=repr)
            if not ms:
                continue
            both = {c[1] for c in ms} >= {c[1] for c in app if c[0] == api}
            if both:
                emit(api, "any", ms)
            else:
                for m in ms:
                    emit(api, m[1], [m])
    return out


def dup_worker(payload: Tuple[Any, ...]) -> Dict[str, Any]:
    """A data file listed twice by the current snapshot - once by the commit that wrote it (with its checksum), once
    more through append_files with a hand-built record that carries no checksum.  With verification on, any change
    to the file's bytes must still raise: whichever entry the read plan keeps, the recorded checksum is known."""
    import dataclasses

    from datashard import create_table, load_table
    from dsmc.localfs import install_local_seams

    tier, seed, order = payload
    rep = Report(PROP, tier, seed, LEVEL)
    ENV.reset(0)
    install_local_seams()
    use_local()
    root = fresh_dir(_fixed_len_name(f"c14-dup-{order}"))
    t = create_table(root, schema())
    if order == "after_partial_delete":
        # the file under test SURVIVES a partial delete: its manifest is rewritten and must carry the checksum over
        with t.new_transaction() as tx:
            tx.append_data([row(i) for i in range(20, 24)])
            tx.append_data([row(i) for i in range(0, 4)])
            tx.append_data([row(i) for i in range(10, 14)])
        first = t._get_all_data_files()[0].file_path
        with t.new_transaction() as tx:
            tx.delete_files([first])
        dfs = t._get_all_data_files()
        if len(dfs) != 2:
            raise HarnessError("partial delete did not leave two files")
    else:
        t.append_records([row(i) for i in range(0, 4)])
        t.append_records([row(i) for i in range(10, 14)])
        dfs = t._get_all_data_files()
        bare = dataclasses.replace(dfs[0], checksum=None, lower_bounds=None, upper_bounds=None,
                                   file_path=("/" + dfs[0].file_path.lstrip("/")) if order == "slash" else dfs[0].file_path)
        with t.new_transaction() as tx:
            tx.append_files([bare])
    t = load_table(root)
    view = reader.LocalView(root)
    rel = dfs[0].file_path.lstrip("/")
    sib = dfs[1].file_path.lstrip("/")
    orig, sibraw = view.get(rel), view.get(sib)
    want = {api: call_api(t, api, True if api != "row_count" else None) for api in APIS}
    st = structure("data", orig)
    n = len(orig)
    offs = sorted({int(i * (n - 1) / 23) for i in range(24)} | set(st["cuts"]))
    specs: List[Tuple[Any, ...]] = [("flip", o, 0x01) for o in offs if 0 <= o < n] + [("sibling", 0)]
    for spec in specs:
        data = apply_spec(orig, spec, [sibraw])
        with open(os.path.join(root, rel), "wb") as f:
            f.write(data)
        for api, v in CONFIGS:
            if v is False or api in ("row_count", "scan_filter"):
                continue  # row_count reads no data file; the filter of scan_filter prunes this file (not read at all)
            try:
                out = ("ok", call_api(t, api, v))
            except HarnessError:
                raise
            except Exception as e:  # noqa
                out = ("raise", type(e).__name__)
            rep.add("evaluations")
            rep.add("doubly_registered_file_reads")
            rep.nontrivial(("dup", order, spec, api, v))
            if out[0] == "ok":
                rep.violation({"backend": "local", "file_class": "data", "damage": damage_name(spec), "api": "all",
                               "verify": "on", "problem": ("altered_bytes_not_detected_for_a_file_that_survived_a_partial_delete" if order == "after_partial_delete"
                                           else "altered_bytes_not_detected_for_a_file_registered_twice")},
                              {"registration_order": order, "spec": list(spec), "api": api, "verify": str(v),
                               "returned_equals_undamaged": out[1] == want[api]})
    with open(os.path.join(root, rel), "wb") as f:
        f.write(orig)
    return rep.part()


def midcall_worker(payload: Tuple[Any, ...]) -> Dict[str, Any]:
    """A data file is replaced (atomically, by a same-sized-table sibling that parses and has the same row count)
    DURING a read call: after the k-th time the call opened that file, for every k.  With verification on the call
    must either raise or return exactly the undamaged answer - never rows of the replacement (a file hashed in one
    pass and decoded in another would return them)."""
    from dsmc.localfs import _REAL_OPEN

    tier, seed = payload
    rep = Report(PROP, tier, seed, LEVEL)
    ctx = Ctx("local", f"midcall-{os.getpid()}")
    try:
        data = [rel for rel, cls in ctx.files if cls == "data"]
        for rel in data:
            sib = [r for r in data if r != rel and len(reader.read_parquet(ctx.view, r)) == len(reader.read_parquet(ctx.view, rel))]
            if not sib:
                continue
            repl = ctx.orig[sib[0]]
            target = os.path.join(ctx.root, rel)
            for api, v in CONFIGS:
                if v is False or api in ("row_count", "scan_filter"):
                    continue

                class Swap:
                    def __init__(self, k: int) -> None:
                        self.k, self.n = k, 0

                    def before(self, ev: Any) -> None:
                        pass

                    def after(self, ev: Any, res: Any, exc: Any) -> None:
                        if exc is None and ev.fn in ("open", "pq_read") and ev.kind == "r" and ev.path == target:
                            self.n += 1
                            if self.n == self.k:
                                tmp = target + ".swap"
                                with _REAL_OPEN(tmp, "wb") as f:
                                    f.write(repl)
                                os.replace(tmp, target)

                probe = Swap(10 ** 9)
                ENV.hooks.append(probe)
                try:
                    call_api(ctx.t, api, v)
                finally:
                    ENV.hooks.remove(probe)
                for k in range(1, probe.n + 1):
                    sw = Swap(k)
                    ENV.hooks.append(sw)
                    try:
                        try:
                            out: Any = ("ok", call_api(ctx.t, api, v))
                        except HarnessError:
                            raise
                        except Exception as e:  # noqa
                            out = ("raise", type(e).__name__)
                    finally:
                        ENV.hooks.remove(sw)
                        ctx.put(rel, ctx.orig[rel])
                    rep.add("evaluations")
                    rep.add("file_replaced_during_the_call_cases")
                    rep.nontrivial(("midcall", rel, api, str(v), k))
                    if out[0] == "ok" and out[1] != ctx.want[api]:
                        rep.violation({"backend": "local", "file_class": "data", "damage": "replaced_during_the_call", "api": "all",
                                       "verify": "on", "problem": "returned_rows_of_the_replacement"},
                                      {"file": rel, "api": api, "verify": str(v), "replaced_after_open_number": k,
                                       "opens_in_the_call": probe.n})
    finally:
        ctx.close()
    return rep.part()


def run(tier: str, seed: int) -> Report:
    rep = Report(PROP, tier, seed, LEVEL)
    fails: List[Tuple[List[Any], Dict[str, Any]]] = []
    for part in pmap("checks.c14", "worker", payloads(tier, seed)):
        fails += part.pop("fails", [])
        rep.merge(part)
    for key, det, cnt in collapse(fails):
        rep.violation(key, det)
        rep.violations[json.dumps(key, sort_keys=True)]["count"] = cnt
    for part in pmap("checks.c14", "dup_worker", [(tier, seed, o) for o in ("same", "slash", "after_partial_delete")]):
        rep.merge(part)
    for part in pmap("checks.c14", "midcall_worker", [(tier, seed)]):
        rep.merge(part)
    rep.cov["read_api_configurations"] = len(CONFIGS)
    rep.cov["files_reachable_from_current_snapshot"] = 7
    rep.cov["exhaustive"] = not rep.caps
    rep.cov["rule"] = (
        "every file reachable from the current snapshot (metadata json, manifest list, 2 manifests, 3 data files) x every "
        "damage of the catalogue (deleted, zero length, truncation at every structural boundary + 1,1/4,1/2,3/4,len-1, "
        "garbage random/text, one overwritten region per structure x 2 fills, byte flips x masks 0x01,0xff [thorough: every byte "
        "of every data file and (local) of every metadata-plane file; quick: every byte x 0x01 of one data file; else K evenly "
        "spaced + structural offsets], swap with every "
        "sibling of the same kind) and every storage "
        "call of every read x {raise once, raise persistently, (S3) permanent error}; each x 15 read API configurations "
        "(7 APIs x verify on/off + row_count). A case is non-trivial (counted in distinct_nontrivial = distinct (file, damage, "
        "api, verify) / (call, fault kind, api, verify)) when the statement applies to it: file missing, rejected by the "
        "independent parser, parsing to the same logical content, any byte change of a data file with verification on, or "
        "an injected fault")
    rep.assumptions += [
        "a read that returns exactly the undamaged answer is accepted whenever the statement allows it: the file was not read "
        "(row_count vs data files, a pruned file), the damaged bytes were not needed (column projection, trailing bytes), the "
        "damage parses to the same logical content, or a transient fault was masked by a retry",
        "verify_checksums=True: ANY byte change of a data file that the call reads must raise (exact answer only if the file "
        "is not read at all)",
        "metadata-plane damage that dsmc.reader (json / fastavro) still accepts and that changes the logical content is out of "
        "scope (out_of_scope_parseable) - this includes an avro file cut exactly after its header (parses as zero entries: "
        "the read returns the rows of the remaining manifests / an empty result) and a swapped-in sibling file",
        "verify_checksums=False: a damaged data file that pyarrow still decodes (to different values) is out of scope "
        "(out_of_scope_unverified_data_decodes_differently)",
        "the exception type is not judged; generators are consumed to the end and must raise before normal exhaustion",
        "damage is planted between calls on a handle opened before the damage; the one in-call change enumerated is the "
        "atomic replacement of a data file by a sibling after the k-th open of that file (midcall part)",
        "the version pointer (metadata.version-hint.text) is not a file 'reachable from the current snapshot': it is faulted "
        "(E3a) but not damaged here (C10 covers it)",
        "logical content of a manifest = its data-file records; damage that only changes an entry's status / adding snapshot / "
        "sequence numbers and still parses must not change any answer",
        "a manifest replaced by a well-formed legacy JSON document (e.g. '{}') is not enumerated: the library documents JSON "
        "manifests as a supported legacy format",
    ]
    return rep


# ---------------------------------------------------------------------------
# replay
# ---------------------------------------------------------------------------
def replay(case: Dict[str, Any]) -> Dict[str, Any]:
    det = case.get("detail", {})
    rep = Report(PROP, case.get("tier", "quick"), case.get("seed", 0), LEVEL)
    ctx = Ctx(det.get("backend", "local"), f"replay-{os.getpid()}")
    j = Judge(rep, ctx)
    try:
        if "spec" in det:
            spec = tuple(det["spec"])
            j.damage_case(int(det["file_index"]), spec)
        else:
            j.fault_cases(det["api"], det["verify"])
    finally:
        ctx.close()
    keys = [k for k, _d, _c in collapse([(list(k), v) for k, v in j.fails.items()])]
    want = case["key"]
    hit = [k for k in keys if all(k.get(f) == v or (f in ("api", "verify") and v in ("all", "any")) or f == "backend"
                                  for f, v in want.items())]
    return {"violated": bool(hit), "matching": hit[:3], "all_keys": keys[:20]}
