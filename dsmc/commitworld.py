"""Closed systems for the E1 explorer: K writers (and optionally readers / a
collector) against one table, on the local backend or on CAS-S3 over FakeS3.

A `TableWorld` owns the template store (built once per process and restored
for every execution) and the table handles; subclasses / callers supply actor
bodies.
"""
from __future__ import annotations

import os
from typing import Any, Callable, Dict, List, Optional, Tuple

from . import reader
from .env import ENV
from .fakes3 import S3World
from .localfs import install_local_seams
from .report import scratch_root
from .sched import Execution, World, install_threading_seams
from .tables import fresh_dir, row, schema
from .worlds import LocalAdapter, S3Adapter


class TableWorld(World):
    """backend: 'local' | 's3'; topology: 'shared' | 'separate'."""

    def __init__(self, backend: str, topology: str, n_handles: int, template: Callable[["TableWorld"], None],
                 name: str = "tbl", cas: bool = True):
        install_threading_seams()
        self.backend, self.topology, self.n_handles = backend, topology, n_handles
        self.name = name
        self.handles: List[Any] = []
        self.s3w: Optional[S3World] = None
        self.adapter: Any = None
        self.t_start = 0.0
        self.view: Any = None
        self._template_state: Any = None
        self._template_counters: Dict = {}
        if backend == "local":
            install_local_seams()
            os.environ["DATASHARD_STORAGE_TYPE"] = "local"
            self.root = fresh_dir(f"e1-{name}-{os.getpid()}")
            self.location = self.root
            self.adapter = LocalAdapter(self.root)
            ENV.reset(0, "TICK")
            template(self)
            self.adapter.save_template(self.root + ".template")
            ENV.hooks.append(self.adapter)
            self.view = reader.LocalView(self.root)
        else:
            self.s3w = S3World(cas=cas)
            self.s3w.__enter__()
            self.location = name
            ENV.reset(0, "TICK")
            template(self)
            self._template_state = self.s3w.s3.clone_state()
            self.adapter = S3Adapter(self.s3w.s3)
            self.view = reader.S3View(self.s3w.s3, name)
        self.t_start = round(ENV.clock + 0.010, 6)
        md = reader.read_metadata(self.view)
        # FROZEN = "several commits inside one clock tick", the tick being the one
        # in which the base version itself was committed
        self.t_frozen = (md["last_updated_ms"] / 1000.0) if md else self.t_start

    def close(self) -> None:
        if self.backend == "local":
            if self.adapter in ENV.hooks:
                ENV.hooks.remove(self.adapter)
        else:
            self.adapter.detach()
            self.s3w.__exit__(None, None, None)

    # ---- World API ---------------------------------------------------------------
    def reset(self) -> None:
        from datashard import load_table

        if self.backend == "local":
            self.adapter.reset()
        else:
            self.s3w.s3.load_state(self._template_state)
            self.adapter.reset()
        ENV.clock = self.t_frozen if ENV.clock_mode == "FROZEN" else self.t_start
        # per-execution setup draws its uuids / temp names as actor "setup": the counters were
        # just reset, and re-drawing them as "main" could collide with names in the template
        ENV.set_actor("setup")
        self.pre_handles()
        n = 1 if self.topology == "shared" else self.n_handles
        if getattr(self, "lazy_handles", False):
            # every actor opens the table itself, as its first scheduled steps (opening is part of the race)
            self.handles = [None] * n
        else:
            self.handles = [load_table(self.location) for _ in range(n)]

    def pre_handles(self) -> None:
        pass

    def handle(self, i: int) -> Any:
        k = 0 if self.topology == "shared" else i
        if self.handles[k] is None:
            from datashard import load_table

            self.handles[k] = load_table(self.location)
        return self.handles[k]

    def digest(self) -> Any:
        return self.adapter.digest()

    @property
    def publish_log(self) -> List[Tuple[str, str]]:
        return self.adapter.publish_log

    def state(self, rows: bool = True) -> reader.TableState:
        return reader.TableState(self.view, rows=rows)


def outcome_of(a: Any) -> Tuple[str, Any]:
    if a.exc is not None:
        return ("raise", type(a.exc).__name__)
    return ("ok", a.result)
