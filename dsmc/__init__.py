"""dsmc - DataShard model-checking harness (see /verif/DESIGN.md)."""
