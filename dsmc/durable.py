"""E3c: POSIX-style durability model driven by the traced os-level calls.

  * file content becomes durable at fsync(fd) of that file;
  * a directory-entry operation (create, rename, unlink) becomes durable at
    fsync(dirfd) of the directory holding the entry;
  * anything else may or may not have reached the disk at a power loss.

The model keeps the *volatile* view (what the running process sees) and the
*durable* view plus the list of pending effects.  `crash_states(max_subsets)`
enumerates, for the current instant, every subset of pending effects as the set
that happened to reach the disk.
"""
from __future__ import annotations

import itertools
import os
from typing import Any, Dict, Iterator, List, Optional, Set, Tuple

TORN = object()  # content that was never fsynced and did not reach the disk


class Inode:
    __slots__ = ("ino", "content", "durable")

    def __init__(self, ino: int):
        self.ino = ino
        self.content: bytes = b""
        self.durable: Any = b""  # an empty, freshly created file is trivially "durable empty"


class Effect:
    __slots__ = ("kind", "dir", "name", "ino", "src", "idx", "content")

    def __init__(self, kind: str, idx: int, dir: Optional[str] = None, name: Optional[str] = None,
                 ino: Optional[Inode] = None, src: Optional[str] = None, content: Optional[bytes] = None):
        self.kind, self.idx, self.dir, self.name, self.ino, self.src, self.content = kind, idx, dir, name, ino, src, content

    def label(self) -> str:
        if self.kind == "content":
            return f"content(ino{self.ino.ino})@{self.idx}"
        if self.kind == "rename":
            return f"rename({self.src}->{self.name})@{self.idx}"
        return f"{self.kind}({self.name})@{self.idx}"


class DurabilityModel:
    def __init__(self, root: str):
        self.root = os.path.realpath(root)
        self.vol: Dict[str, Inode] = {}  # rel path -> inode (volatile view)
        self.dur: Dict[str, Inode] = {}  # rel path -> inode (durable entries)
        self.pending: List[Effect] = []
        self.n_ino = 0
        self.fd_ino: Dict[int, Inode] = {}
        self.fd_dir: Dict[int, str] = {}
        self.unsynced_dirs: Set[str] = set()  # directories whose own entry was never synced (informational)
        self.events = 0
        self.untraced_content = 0

    def rel(self, p: str) -> Optional[str]:
        p = os.path.realpath(p) if os.path.isabs(p) else p
        if p == self.root:
            return ""
        if p.startswith(self.root + os.sep):
            return p[len(self.root) + 1:]
        return None

    def _new(self) -> Inode:
        self.n_ino += 1
        return Inode(self.n_ino)

    # ---- trace ingestion ---------------------------------------------------
    def feed(self, ev: Any, res: Any, payload: Optional[bytes]) -> None:
        """`ev` is a dsmc.localfs.Ev observed *after* its effect."""
        self.events += 1
        fn = ev.fn
        i = ev.idx
        if fn == "mkstemp" or fn == "NamedTemporaryFile":
            path = res[1] if fn == "mkstemp" else res.name
            r = self.rel(path)
            if r is None:
                return
            ino = self._new()
            self.vol[r] = ino
            self.pending.append(Effect("link", i, os.path.dirname(r), r, ino))
            if fn == "mkstemp":
                self.fd_ino[res[0]] = ino
        elif fn == "open":
            r = self.rel(ev.path)
            if r is None or res is None or not isinstance(res, int):
                return
            if os.path.isdir(ev.path):
                self.fd_dir[res] = r
            else:
                ino = self.vol.get(r)
                if ino is None:
                    ino = self._new()
                    self.vol[r] = ino
                    self.pending.append(Effect("link", i, os.path.dirname(r), r, ino))
                self.fd_ino[res] = ino
        elif fn == "write":
            ino = self.fd_ino.get(ev.fd)
            if ino is not None and payload is not None:
                ino.content = ino.content + payload
                self._content_pending(ino, i)
        elif fn == "pq_close":
            r = self.rel(ev.path) if ev.path else None
            if r is not None and r in self.vol and payload is not None:
                self.vol[r].content = payload
                self._content_pending(self.vol[r], i)
        elif fn == "fsync":
            if ev.fd in self.fd_dir:
                d = self.fd_dir[ev.fd]
                keep = []
                for e in self.pending:
                    if e.kind != "content" and e.dir == d:
                        self._apply_entry(self.dur, e)
                    else:
                        keep.append(e)
                self.pending = keep
            elif ev.fd in self.fd_ino:
                ino = self.fd_ino[ev.fd]
                ino.durable = ino.content
                self.pending = [e for e in self.pending if not (e.kind == "content" and e.ino is ino)]
        elif fn == "close":
            self.fd_ino.pop(ev.fd, None)
            self.fd_dir.pop(ev.fd, None)
        elif fn == "replace":
            s, d = self.rel(ev.path), self.rel(ev.path2)
            if s is None or d is None:
                return
            ino = self.vol.pop(s, None)
            if ino is None:
                return
            self.vol[d] = ino
            if payload is not None and payload != ino.content:
                # the bytes now visible under the new name did not come through the traced write path (e.g. a
                # buffered file object flushed at close): nothing in the trace made THEM durable - an fsync seen
                # earlier flushed whatever the kernel held at that moment, which was not this content
                self.untraced_content += 1
                ino.content = payload
                self._content_pending(ino, i)
            self.pending.append(Effect("rename", i, os.path.dirname(d), d, ino, src=s))
        elif fn in ("remove", "unlink"):
            r = self.rel(ev.path)
            if r is None:
                return
            if self.vol.pop(r, None) is not None:
                self.pending.append(Effect("unlink", i, os.path.dirname(r), r))
        elif fn == "makedirs":
            r = self.rel(ev.path)
            if r:
                self.unsynced_dirs.add(r)

    def _content_pending(self, ino: Inode, i: int) -> None:
        self.pending = [e for e in self.pending if not (e.kind == "content" and e.ino is ino)]
        if ino.durable is not ino.content and ino.durable != ino.content:
            self.pending.append(Effect("content", i, ino=ino))

    @staticmethod
    def _apply_entry(entries: Dict[str, Inode], e: Effect) -> None:
        if e.kind == "link":
            entries[e.name] = e.ino
        elif e.kind == "rename":
            if e.src in entries and entries[e.src] is e.ino:
                del entries[e.src]
            entries[e.name] = e.ino
        elif e.kind == "unlink":
            entries.pop(e.name, None)

    # ---- crash states --------------------------------------------------------
    @staticmethod
    def irrelevant(e: Effect) -> bool:
        """Effects that only touch paths no oracle reads (in-flight markers,
        the lock file, temp names): the verdict is a function of the pointer,
        metadata/, manifests and data files only, so leaving these effects
        unpersisted in every enumerated state loses no verdict."""
        if e.kind == "content":
            return False
        p = e.name or ""
        b = os.path.basename(p)
        return (p.startswith("metadata/inflight/") or p.startswith(".locks/")
                or b.startswith(".tmp.") or (b.startswith("tmp") and e.kind != "rename"))

    def relevant_pending(self) -> List[Effect]:
        return [e for e in self.pending if not self.irrelevant(e)]

    def crash_states(self, max_pending: int = 12) -> Iterator[Tuple[Tuple[str, ...], Dict[str, Any]]]:
        """Yield (persisted effect labels, {rel path: bytes | TORN}) for every
        subset of the relevant pending effects."""
        allp = self.relevant_pending()
        older: List[Effect] = []
        pend = allp
        if len(allp) > max_pending:
            # capped (caller reports it): all subsets of the most recent
            # `max_pending` effects, with the older ones all-lost / all-kept
            older, pend = allp[:-max_pending], allp[-max_pending:]
        n = len(pend)
        for mask in range(1 << n):
          for keep_older in ((False, True) if older else (False,)):
            chosen = (older if keep_older else []) + [pend[j] for j in range(n) if mask >> j & 1]
            entries = dict(self.dur)
            good: Set[int] = set()
            for e in chosen:
                if e.kind == "content":
                    good.add(e.ino.ino)
                else:
                    self._apply_entry(entries, e)
            files: Dict[str, Any] = {}
            for path, ino in entries.items():
                if ino.ino in good or ino.durable == ino.content:
                    files[path] = ino.content
                else:
                    files[path] = TORN
            yield tuple(e.label() for e in chosen), files


class DictView:
    """reader-compatible view over {rel path: bytes|TORN}; TORN reads as absent."""

    def __init__(self, files: Dict[str, Any]):
        self.files = files

    def get(self, rel: str) -> Optional[bytes]:
        v = self.files.get(rel.lstrip("/"))
        return None if (v is None or v is TORN) else v

    def exists(self, rel: str) -> bool:
        return self.get(rel) is not None

    def list(self) -> Set[str]:
        return set(self.files)
