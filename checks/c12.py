"""C12 - filters mean what SQL says, identically in every scan API.

Exhaustive small-scope enumeration (no sampling; `seed` only rotates the order
of the worker payloads): for every column type, every table layout of a
catalogue (0-3 files, incl. an empty file and an all-NULL file) over the value
domain {NULL, a<b<c (+NaN for doubles)}, every filter of a symbolic catalogue
(every operator and alias of filters._parse_op, {"c": v}, between incl. lo>hi,
in/not_in with empty / singleton / NULL-containing sets, is_null/is_not_null
and their aliases, NULL literals, conjunctions on two columns, malformed
filters) and every scan API configuration (scan sequential / parallel=2,
scan_batches with batch_size 1/2/10000, iter_records; verify_checksums on/off;
column projections incl. one without the filter column) the result is compared
with an independent plain-Python evaluator of the predicate over the appended
rows (4-valued: TRUE / FALSE / NULL / UNSPECIFIED).

Row verdicts:  TRUE -> the row must be returned; FALSE or NULL -> it must not;
UNSPECIFIED (the truth value hinges on a comparison with NaN, or on `not_in`
with a NULL in the set for a non-member) -> either is accepted, but every API
configuration must agree with the baseline (scan, sequential, verify on, all
columns).  Malformed filters must raise in every configuration.
"""
from __future__ import annotations

import datetime as dt
import itertools
import json
from collections import Counter
from typing import Any, Dict, Iterable, List, Optional, Tuple

from dsmc.report import HarnessError, Report, pmap
from dsmc.tables import fresh_dir, use_local

PROP = "C12"
NAN = float("nan")

VALUES: Dict[str, Dict[str, Any]] = {
    "long": dict(a=-5, b=0, c=2**53 + 1),
    "double": dict(a=-1.5, b=0.0, c=2.5, X=NAN),
    "string": dict(a="10", b="9", c="é"),
    "boolean": dict(a=False, b=True),
    "date": dict(a=dt.date(1969, 12, 31), b=dt.date(2000, 1, 1), c=dt.date(2024, 2, 29)),
    "timestamp": dict(a=dt.datetime(1969, 12, 31, 23, 59, 59, 999999), b=dt.datetime(2000, 1, 1),
                      c=dt.datetime(2024, 2, 29, 12, 0, 0, 1)),
    # a type for which the writer records NO column bounds (binary / fixed / list columns)
    "binary": dict(a=b"\x00a", b=b"b", c=b"\xffz"),
}
QUICK_TYPES = ["long", "double", "string", "boolean", "binary"]
ALL_TYPES = list(VALUES)
PAIRS = [("long", "string"), ("double", "boolean"), ("date", "timestamp"), ("string", "double"),
         ("boolean", "long"), ("timestamp", "date")]

CMP_ALIASES = {"==": ["==", "=", "eq"], "!=": ["!=", "<>", "ne"], "<": ["<", "lt"], "<=": ["<=", "le"],
               ">": [">", "gt"], ">=": [">=", "ge"]}
SET_ALIASES = {"in": ["in"], "not_in": ["not_in", "not in", "notin"]}
NULL_ALIASES = {"is_null": ["is_null", "isnull"], "is_not_null": ["is_not_null", "notnull", "isnotnull"]}
CANON = {al: op for d in (CMP_ALIASES, SET_ALIASES, NULL_ALIASES) for op, als in d.items() for al in als}

MALFORMED = ["unknown_op:gte", "unknown_op:startswith", "unknown_op:like", "unknown_op:", "unknown_op:=>",
             "none_value", "arity:1", "arity:3", "arity:0", "nonstring_op:int", "nonstring_op:none",
             # a `between` whose operand is not a (lo, hi) pair
             "between_operand:three", "between_operand:one", "between_operand:scalar", "between_operand:empty"]


def _isnan(v: Any) -> bool:
    return isinstance(v, float) and v != v


def lit(tname: str, name: str) -> Any:
    if name == "null":
        return None
    if name == "nan":
        return NAN
    return VALUES[tname][name]


def sym_value(tname: str, s: str) -> Any:
    if s == "N":
        return None
    return VALUES[tname][s]


def symbols(tname: str) -> List[str]:
    return ["N"] + list(VALUES[tname])


def literal_names(tname: str) -> List[str]:
    return [n for n in VALUES[tname] if n != "X"] + (["nan"] if "X" in VALUES[tname] else [])


# ---------------------------------------------------------------------------
# symbolic single-column conditions  (tuples, jsonable)
# ---------------------------------------------------------------------------
def conditions(tname: str, level: str) -> List[Tuple]:
    """level 'full': every alias x every literal; 'conj': a small spanning set for 2-column conjunctions."""
    L = literal_names(tname)
    first, mid = L[0], L[1]
    out: List[Tuple] = []
    if level == "conj":
        out += [("short", first), ("cmp", "==", first), ("cmp", "!=", first), ("cmp", "<", mid), ("cmp", "<=", first),
                ("cmp", ">", first), ("cmp", ">=", mid), ("set", "in", (first, "null")), ("set", "in", ()),
                ("set", "not_in", (first,)), ("set", "not_in", ()), ("set", "not_in", (first, "null")),
                ("between", first, mid), ("between", mid, first), ("null", "is_null"), ("null", "is_not_null"),
                ("cmp", "==", "null")]
        if "nan" in L:
            out += [("cmp", "!=", "nan"), ("set", "in", ("nan",))]
        return out
    for n in L:
        out.append(("short", n))
    for op, als in CMP_ALIASES.items():
        for al in als:
            for n in (L if (level == "full" or al == op) else [mid]):
                out.append(("cmp", al, n))
    sets: List[Tuple[str, ...]] = [(), (first,), (mid,), ("null",), (first, "null"), (first, L[-1]) if len(L) > 2 else (first, mid),
                                   tuple(n for n in L if n != "nan")]
    if "nan" in L:
        sets += [("nan",), (first, "nan"), ("nan", "null")]
    sets = list(dict.fromkeys(sets))
    for op, als in SET_ALIASES.items():
        for al in als:
            for s in (sets if (level == "full" or al == op) else [(first, "null"), ()]):
                out.append(("set", al, s))
    for lo in L:
        for hi in L:
            out.append(("between", lo, hi))
    for op, als in NULL_ALIASES.items():
        for al in als:
            out.append(("null", al))
    # NULL literals: SQL says "matches nothing"; raising is accepted as well
    out += [("cmp", "==", "null"), ("cmp", "!=", "null"), ("cmp", "<", "null"), ("cmp", ">=", "null"),
            ("between", "null", mid), ("between", first, "null")]
    for m in MALFORMED:
        out.append(("malformed", m))
    return out


def build_condition(tname: str, c: Tuple) -> Any:
    k = c[0]
    if k == "short":
        return lit(tname, c[1])
    if k == "cmp":
        return (c[1], lit(tname, c[2]))
    if k == "set":
        return (c[1], [lit(tname, n) for n in c[2]])
    if k == "between":
        return ("between", (lit(tname, c[1]), lit(tname, c[2])))
    if k == "null":
        return (c[1], True)
    if k == "malformed":
        v = lit(tname, literal_names(tname)[1])
        m = c[1]
        if m.startswith("unknown_op:"):
            return (m.split(":", 1)[1], v)
        if m.startswith("between_operand:"):
            return ("between", {"three": (v, v, v), "one": (v,), "scalar": v, "empty": ()}[m.split(":", 1)[1]])
        return {"none_value": None, "arity:1": ("==",), "arity:3": ("==", v, v), "arity:0": (),
                "nonstring_op:int": (1, v), "nonstring_op:none": (None, v)}[m]
    raise ValueError(c)


def cond_op(c: Tuple) -> str:
    k = c[0]
    if k == "short":
        return "=="
    if k in ("cmp", "set", "null"):
        return CANON[c[1]]
    if k == "between":
        return "between"
    return "malformed"


def cond_is_alias(c: Tuple) -> bool:
    return c[0] in ("cmp", "set", "null") and CANON[c[1]] != c[1]


def cond_kind(c: Tuple) -> str:
    """malformed | null_literal | wellformed"""
    if c[0] == "malformed":
        return "malformed"
    if (c[0] == "cmp" and c[2] == "null") or (c[0] == "between" and "null" in c[1:]) or (c[0] == "short" and c[1] == "null"):
        return "null_literal"
    return "wellformed"


def cond_literal_class(c: Tuple) -> str:
    k = c[0]
    if k == "set":
        if not c[2]:
            return "empty_set"
        cl = set()
        for n in c[2]:
            cl.add("null" if n == "null" else "nan" if n == "nan" else "value")
        return "set:" + "+".join(sorted(cl))
    if k == "between":
        return "between"
    names = [x for x in c[1:] if isinstance(x, str)]
    if "null" in names[-1:]:
        return "null"
    if "nan" in names[-1:]:
        return "nan"
    return "value" if k in ("cmp", "short") else "none"


# ---------------------------------------------------------------------------
# reference evaluator: T / F / N(ULL) / U(nspecified by the statement)
# ---------------------------------------------------------------------------
def _cmp(op: str, x: Any, y: Any) -> str:
    if x is None or y is None:
        return "N"
    if _isnan(x) or _isnan(y):
        return "U"
    r = {"==": x == y, "!=": x != y, "<": x < y, "<=": x <= y, ">": x > y, ">=": x >= y}[op]
    return "T" if r else "F"


def _and(vs: Iterable[str]) -> str:
    vs = list(vs)
    if "F" in vs:
        return "F"
    if "N" in vs:
        return "N"
    if "U" in vs:
        return "U"
    return "T"


def eval_condition(tname: str, c: Tuple, x: Any) -> str:
    k = c[0]
    if k == "short":
        return _cmp("==", x, lit(tname, c[1]))
    if k == "cmp":
        return _cmp(CANON[c[1]], x, lit(tname, c[2]))
    if k == "between":
        return _and([_cmp(">=", x, lit(tname, c[1])), _cmp("<=", x, lit(tname, c[2]))])
    if k == "null":
        isnull = x is None
        return "T" if isnull == (CANON[c[1]] == "is_null") else "F"
    if k == "set":
        if x is None:
            return "N"  # in / not_in never match NULL
        rs = [_cmp("==", x, lit(tname, n)) for n in c[2]]
        if "T" in rs:
            member = "T"
        elif "U" in rs:
            member = "U"
        elif "N" in rs:
            member = "N"
        else:
            member = "F"
        if CANON[c[1]] == "in":
            return member
        # not_in: a non-member with a NULL in the set is NULL in strict SQL and TRUE under the
        # library's documented "a NULL in the set matches nothing" reading - the statement allows both
        return {"T": "F", "F": "T", "U": "U", "N": "U"}[member]
    raise ValueError(c)


# ---------------------------------------------------------------------------
# API configurations
# ---------------------------------------------------------------------------
APIS: List[Tuple[str, Dict[str, Any]]] = []
for _v in (True, False):
    APIS.append(("scan", {"verify": _v}))
    APIS.append(("scan_par2", {"verify": _v}))
    for _bs in (1, 2, 10000):
        APIS.append((f"scan_batches_{_bs}", {"verify": _v}))
    APIS.append(("iter_records", {"verify": _v}))
    # the same generator APIs, consumed in strict alternation with a second generator over the same
    # Table object that uses a different filter, projection and verification setting: the answer of
    # one call must not depend on what other calls are in flight on the handle
    APIS.append(("scan_batches_1_il", {"verify": _v}))
    APIS.append(("iter_records_il", {"verify": _v}))


def api_family(api: str) -> str:
    return "scan" if api.startswith("scan") and not api.startswith("scan_batches") else "scan_batches/iter_records"


def run_api(t: Any, api: str, verify: bool, cols: Optional[List[str]], fd: Optional[Dict[str, Any]]) -> Tuple[str, Any]:
    try:
        if api == "scan":
            return "ok", t.scan(columns=cols, filter=fd, verify_checksums=verify)
        if api == "scan_par2":
            return "ok", t.scan(columns=cols, filter=fd, parallel=2, verify_checksums=verify)
        if api.startswith("scan_batches_") and not api.endswith("_il"):
            bs = int(api.rsplit("_", 1)[1])
            out: List[Dict[str, Any]] = []
            for b in t.scan_batches(batch_size=bs, columns=cols, filter=fd, verify_checksums=verify):
                if len(b) > bs:
                    return "ok_oversized_batch", b
                out.extend(b)
            return "ok", out
        if api == "iter_records":
            return "ok", list(t.iter_records(columns=cols, filter=fd, verify_checksums=verify))
        if api.endswith("_il"):
            if api == "scan_batches_1_il":
                g1 = t.scan_batches(batch_size=1, columns=cols, filter=fd, verify_checksums=verify)
                g2 = t.scan_batches(batch_size=1, columns=["k"], filter=None, verify_checksums=not verify)
            else:
                g1 = t.iter_records(columns=cols, filter=fd, verify_checksums=verify)
                g2 = t.iter_records(columns=["k"], filter=None, verify_checksums=not verify)
            out = []
            done2 = False
            while True:
                try:
                    x = next(g1)
                except StopIteration:
                    break
                out.extend(x) if isinstance(x, list) else out.append(x)
                if not done2:
                    try:
                        next(g2)
                    except StopIteration:
                        done2 = True
            return "ok", out
        raise HarnessError(api)
    except HarnessError:
        raise
    except Exception as e:  # noqa
        return "raise", e


def configs(cols_all: List[str], fcols: List[str], level: str) -> List[Tuple[str, bool, Optional[List[str]], str]]:
    """(api, verify, projection, projection-name).  level 'all': full cross; 'cover': every API with all columns and
    with a projection that lacks the filter column(s), plus scan/scan_batches_2 with the other projections."""
    others = [c for c in cols_all if c not in fcols]
    projs: List[Tuple[Optional[List[str]], str]] = [(None, "all"), (list(others), "without_filter_column"),
                                                    (list(fcols), "only_filter_column"), (list(reversed(cols_all)), "reordered")]
    if len(fcols) > 1:
        projs.append(([others[0], fcols[1]], "partial_filter_columns"))
    out = []
    for api, kw in APIS:
        for p, pn in projs:
            if level == "all" or pn in ("all", "without_filter_column") or api in ("scan", "scan_batches_2"):
                out.append((api, kw["verify"], p, pn))
    return out


# ---------------------------------------------------------------------------
# tables
# ---------------------------------------------------------------------------
def layouts_1col(tname: str, tier: str) -> List[Tuple[Tuple[str, ...], ...]]:
    S = symbols(tname)
    vals = [s for s in S if s not in ("N",)]
    a = vals[0]
    b = vals[1]
    c = vals[2] if len(vals) > 2 and vals[2] != "X" else b
    out: List[Tuple[Tuple[str, ...], ...]] = [
        (),                                   # freshly created table, no snapshot
        (tuple(S),),                          # one file holding every symbol
        ((), (a, "N")),                       # an empty file
        ((),),                                # nothing but an empty file
        (("N", "N"), (a, b, c)),              # an all-NULL file
        ((a, a), (b,), (c, "N", c)),
        ((c, b, a, "N", b),),                 # 5 rows: 3 batches of size 2
    ]
    if "X" in S:
        out += [(("X",), (a, "X", "N"), (b,)), ((a, "X"), (b, c, "X"))]
    out += [((s,),) for s in S]
    if tier == "thorough":
        out += [(m,) for m in itertools.combinations_with_replacement(S, 2)]
        singles = [()] + [(s,) for s in S]
        out += [(x, y) for x, y in itertools.combinations_with_replacement(singles, 2)]
        out += [(("N",), (), (a, b)), ((b, "N"), ("N",), (b,)), ((c,), (b,), (a,))]
    return list(dict.fromkeys(out))


def layouts_2col(t1: str, t2: str) -> List[Tuple[Tuple[Tuple[str, str], ...], ...]]:
    s1 = ["N"] + [s for s in VALUES[t1] if s in ("a", "b", "X")]
    s2 = ["N"] + [s for s in VALUES[t2] if s in ("a", "b", "X")]
    rows = [(x, y) for x in s1 for y in s2]
    by_c: Dict[str, List[Tuple[str, str]]] = {}
    for r in rows:
        by_c.setdefault(r[0], []).append(r)
    return [
        (tuple(rows),),
        tuple(tuple(rows[i::3]) for i in range(3)),
        tuple(tuple(v) for v in by_c.values()) + ((), (("N", "N"), ("N", "N"))),
    ]


def _schema(types: List[str]):
    from datashard import Schema

    fields = [{"id": 1, "name": "k", "type": "long", "required": True}]
    for i, (n, tn) in enumerate(zip("cd", types)):
        fields.append({"id": 5 - 2 * i, "name": n, "type": tn, "required": False})
    return Schema(schema_id=1, fields=fields)


def _canon(v: Any) -> Any:
    return "NaN" if _isnan(v) else v


def _crow(r: Dict[str, Any]) -> Tuple:
    return tuple(sorted((k, repr(_canon(v))) for k, v in r.items()))


class Tbl:
    """A real table built once; all filters and API configurations run against it."""

    def __init__(self, types: List[str], layout: Tuple, tag: str):
        from datashard import create_table

        use_local()
        self.types = types
        self.layout = layout
        self.cols = ["k"] + list("cd"[:len(types)])
        self.t = create_table(fresh_dir(f"c12-{tag}"), _schema(types))
        self.rows: Dict[int, Dict[str, Any]] = {}
        for i, f in enumerate(layout):
            recs = []
            for j, cell in enumerate(f):
                cells = (cell,) if isinstance(cell, str) else cell
                r = {"k": 100 * i + j}
                for n, tn, s in zip("cd", types, cells):
                    r[n] = sym_value(tn, s)
                recs.append(r)
                self.rows[r["k"]] = r
            self.t.append_records(recs)
        files = self.t._get_all_data_files()
        if len(files) != len(layout):
            raise HarnessError(f"{types} {layout}: {len(files)} data files for {len(layout)} appends")
        # the file list and schema of a quiescent table are constants: memoise the two metadata
        # reads so that a call costs ~half (the read/filter/projection paths under test are untouched)
        sch = self.t._get_current_schema()
        self.t._get_all_data_files = lambda: list(files)  # type: ignore
        self.t._get_current_schema = lambda: sch  # type: ignore

    def table_class(self) -> str:
        if not self.layout:
            return "no_files"
        return "has_rows" if self.rows else "only_empty_files"


# ---------------------------------------------------------------------------
# the check of one (table, filter)
# ---------------------------------------------------------------------------
def filter_dict(types: List[str], f: Tuple) -> Dict[str, Any]:
    """f = (("c", cond),) or (("c", cond1), ("d", cond2)) in dict order."""
    return {col: build_condition(types["cd".index(col)], cond) for col, cond in f}


def filter_op(f: Tuple) -> str:
    return "&".join(cond_op(c) for _col, c in f)


def filter_kind(f: Tuple) -> str:
    kinds = [cond_kind(c) for _col, c in f]
    if "malformed" in kinds:
        return "malformed"
    if "null_literal" in kinds:
        return "null_literal"
    return "wellformed"


def verdicts(tb: Tbl, f: Tuple) -> Dict[int, str]:
    out = {}
    for k, r in tb.rows.items():
        out[k] = _and(eval_condition(tb.types["cd".index(col)], cond, r[col]) for col, cond in f)
    return out


def row_class(tb: Tbl, f: Tuple, k: int) -> str:
    cl = []
    for col, _c in f:
        v = tb.rows[k][col]
        cl.append("null" if v is None else "nan" if _isnan(v) else "value")
    return "&".join(cl)


def sem_key(tb: Tbl, f: Tuple, k: int, problem: str) -> Dict[str, Any]:
    """Key of a row-level disagreement with the reference.  In a conjunction an unexpected row is attributed to
    the (first) conjunct that rejects it, so a single-column defect keeps its single-column key."""
    conds = f
    if problem == "unexpected_row" and len(f) > 1 and k in tb.rows:
        resp = tuple((col, c) for col, c in f
                     if eval_condition(tb.types["cd".index(col)], c, tb.rows[k][col]) in ("F", "N"))
        if resp:
            conds = resp[:1]
    return {"part": "semantics", "op": filter_op(conds), "literal": "+".join(cond_literal_class(c) for _c, c in conds),
            "row": row_class(tb, conds, k) if k in tb.rows else "unknown", "problem": problem}


def check_filter(rep: Report, tb: Tbl, f: Tuple, cfgs: List[Tuple[str, bool, Optional[List[str]], str]]) -> None:
    types = tb.types
    fd = filter_dict(types, f)
    kind = filter_kind(f)
    op = filter_op(f)
    op_api = op if len(f) == 1 else "conjunction"
    tkey = "+".join(types)
    base = {"types_": tkey}
    detail0 = {"types": types, "layout": _jl(tb.layout), "filter": _jl(f), "filter_dict": repr(fd)}
    st0, res0 = run_api(tb.t, "scan", True, None, fd)
    rep.add("evaluations")
    rep.add("api_calls")

    if kind == "malformed":
        mk = [c[1] for _col, c in f if c[0] == "malformed"][0]
        if tb.layout:
            rep.nontrivial(("m", tkey, tb.layout, f))
        for api, verify, proj, pn in cfgs:
            st, res = run_api(tb.t, api, verify, proj, fd)
            rep.add("api_calls")
            rep.add("malformed_calls")
            if st == "raise":
                rep.add("malformed_raised")
                hist = rep.cov.setdefault("malformed_exception_types", {})
                hist[type(res).__name__] = hist.get(type(res).__name__, 0) + 1
            else:
                rep.violation({"part": "malformed", "kind": mk.split(":")[0], "api": api_family(api), "table": tb.table_class(), **base},
                              {**detail0, "api": api, "verify": verify, "projection": pn, "returned": repr(res)[:300]})
        return

    vd = verdicts(tb, f)
    must = {k for k, v in vd.items() if v == "T"}
    free = {k for k, v in vd.items() if v == "U"}
    if kind == "null_literal":
        # comparison with a NULL literal: SQL -> no row; a refusal is accepted too (statement silent)
        for api, verify, proj, pn in cfgs:
            if (api, verify, proj) == ("scan", True, None):
                st, res = st0, res0
            else:
                st, res = run_api(tb.t, api, verify, proj, fd)
                rep.add("api_calls")
            if st == "raise":
                rep.add("null_literal_raised")
            elif res:
                rep.violation({"part": "semantics", "op": op, "literal": "null", "row": "any", "problem": "unexpected_row", **base},
                              {**detail0, "api": api, "verify": verify, "projection": pn, "returned": repr(res)[:300]})
            else:
                rep.add("null_literal_empty")
        return

    alias = any(cond_is_alias(c) for _col, c in f)
    if st0 == "raise":
        if not alias:
            rep.violation({"part": "raises", "op": op, "literal": "+".join(cond_literal_class(c) for _c, c in f), "api": "scan", **base},
                          {**detail0, "error": repr(res0)[:300]})
            return
        # an alias is not part of the statement: it may be rejected, but then by every API
        rep.add("alias_rejected")
        for api, verify, proj, pn in cfgs:
            st, res = run_api(tb.t, api, verify, proj, fd)
            rep.add("api_calls")
            if st != "raise":
                rep.violation({"part": "api", "api": api, "verify": verify, "projection": pn, "op": op_api, "problem": "alias_accepted_here_rejected_by_scan", **base},
                              {**detail0})
        return

    k0 = Counter(r.get("k") for r in res0)
    ok = True
    for k, n in k0.items():
        if k in must or (k in free and n == 1):
            if n == 1:
                continue
            problem = "duplicate_row"
        else:
            problem = "duplicate_row" if k in free else "unexpected_row"
        ok = False
        rep.violation({**sem_key(tb, f, k, problem), **base},
                      {**detail0, "row": repr(tb.rows.get(k)), "verdict": vd.get(k), "returned": repr(res0)[:400]})
    for k in must:
        if k not in k0:
            ok = False
            rep.violation({**sem_key(tb, f, k, "missing_row"), **base},
                          {**detail0, "row": repr(tb.rows[k]), "verdict": vd[k], "returned": repr(res0)[:400]})
    if 0 < len(must) < len(tb.rows) or free:
        rep.nontrivial(("w", tkey, tb.layout, f))
    if free:
        rep.add("filters_with_unspecified_rows")
    rep.add("rows_judged", len(tb.rows) - len(free))
    rep.add("rows_unspecified_cross_api_only", len(free))
    if len(rep.samples) < 2 and 0 < len(must) < len(tb.rows) and len(tb.layout) > 1:
        rep.sample({"types": types, "layout": _jl(tb.layout), "filter": repr(fd), "rows": repr(list(tb.rows.values())),
                    "verdict_per_k": vd, "baseline_scan_returned_k": sorted(k0)})
    if not ok:
        return
    # a value set means the same whether a literal is listed once or twice (also on rows the statement leaves
    # unspecified, e.g. NaN): `c in [v]` == `c in [v, v]`, `c not_in [v]` == `c not_in [v, v]`
    if len(f) == 1 and f[0][1][0] == "set" and len(f[0][1][2]) == 1 and not cond_is_alias(f[0][1]):
        col, c = f[0]
        fd2 = filter_dict(types, ((col, ("set", c[1], (c[2][0], c[2][0]))),))
        st2, res2 = run_api(tb.t, "scan", True, None, fd2)
        rep.add("api_calls")
        rep.add("set_filters_compared_with_their_duplicated_literal_form")
        k2 = Counter(r.get("k") for r in res2) if st2 == "ok" else None
        if k2 != k0:
            rep.violation({"part": "semantics", "op": op, "literal": cond_literal_class(c), "row": "any",
                           "problem": "single_literal_set_differs_from_the_same_literal_listed_twice", **base},
                          {**detail0, "filter_twice": repr(fd2), "once_k": sorted(k0.elements()),
                           "twice": repr(sorted(k2.elements()) if k2 is not None else res2)[:300]})
            return
    # every other configuration must return exactly the baseline's rows, projected
    diffs: Dict[Tuple[str, bool, str], Tuple[str, str, Dict[str, Any]]] = {}
    for api, verify, proj, pn in cfgs:
        if (api, verify, proj) == ("scan", True, None):
            continue
        st, res = run_api(tb.t, api, verify, proj, fd)
        rep.add("api_calls")
        cols = proj if proj is not None else tb.cols
        if st != "ok":
            diffs[(api, verify, pn)] = ("raises" if st == "raise" else "batch_larger_than_batch_size", "-",
                                        {**detail0, "api": api, "verify": verify, "projection": pn, "error": repr(res)[:300]})
            continue
        want = Counter(_crow({c: tb.rows[k][c] for c in cols}) for k in k0.elements())
        got = Counter(_crow(r) for r in res)
        if want != got:
            rc = "?"
            if "k" in cols:
                gk = Counter(r.get("k") for r in res)
                dk = set((gk - k0) + (k0 - gk))
                rc = "+".join(sorted({row_class(tb, f, k) if k in tb.rows else "unknown" for k in dk})) or "?"
            diffs[(api, verify, pn)] = ("differs_from_baseline", rc,
                                        {**detail0, "api": api, "verify": verify, "projection": pn, "columns": cols,
                                         "baseline_k": sorted(k0), "returned": repr(res)[:400]})
        else:
            rep.add("api_results_equal_to_baseline")
    # attribute a difference to the simplest configuration that shows it too (all columns; the head of the
    # API family) so that one defect is reported under few keys
    heads = {"scan_par2": ["scan"], "scan": [],
             "scan_batches_10000": [], "scan_batches_2": ["scan_batches_10000"],
             "scan_batches_1": ["scan_batches_10000", "scan_batches_2"],
             "iter_records": ["scan_batches_10000", "scan_batches_2", "scan_batches_1"],
             "scan_batches_1_il": ["scan_batches_10000", "scan_batches_2", "scan_batches_1"],
             "iter_records_il": ["scan_batches_10000", "scan_batches_2", "scan_batches_1", "iter_records", "scan_batches_1_il"]}
    for (api, verify, pn), (problem, rc, detail) in diffs.items():
        cands = [(h, verify, "all") for h in heads[api]] + [(h, verify, pn) for h in heads[api]] + [(api, verify, "all")]
        tgt = (api, verify, pn)
        for c in cands:
            if c != tgt and c in diffs and diffs[c][0] == problem:
                tgt = c
                rep.add("api_differences_attributed_to_simpler_configuration")
                break
        rep.violation({"part": "api", "api": tgt[0], "verify": tgt[1], "projection": tgt[2], "op": op_api, "row": diffs[tgt][1],
                       "problem": problem, **base}, detail)


def _jl(x: Any) -> Any:
    if isinstance(x, tuple):
        return [_jl(v) for v in x]
    return x


def _jt(x: Any) -> Any:
    if isinstance(x, list):
        return tuple(_jt(v) for v in x)
    return x


# ---------------------------------------------------------------------------
# workers
# ---------------------------------------------------------------------------
def filters_1col(tname: str) -> List[Tuple]:
    return [(("c", c),) for c in conditions(tname, "full")]


def filters_2col(t1: str, t2: str) -> List[Tuple]:
    c1, c2 = conditions(t1, "conj"), conditions(t2, "conj")
    out = [(("c", x), ("d", y)) for x in c1 for y in c2]
    # reversed dict order and a malformed conjunct next to a valid one
    out += [(("d", y), ("c", x)) for x in c1[:4] for y in c2[:4]]
    out += [(("c", c1[1]), ("d", ("malformed", m))) for m in MALFORMED[:2] + MALFORMED[5:7]]
    out += [(("c", ("malformed", m)), ("d", c2[1])) for m in MALFORMED[:1] + MALFORMED[5:6]]
    return out


def worker(payload: Tuple) -> Dict[str, Any]:
    types, tier, seed, lays, chunk, depth, (si, sn) = payload
    types = list(types)
    rep = Report(PROP, tier, seed, "exploration")
    if len(types) == 1:
        fl = filters_1col(types[0])
        cfgs = configs(["k", "c"], ["c"], "all" if depth == "full_cross" else "cover")
    else:
        fl = filters_2col(*types)
        cfgs = configs(["k", "c", "d"], ["c", "d"], "cover")
    rep.setmax(f"max_filters_per_table:{'+'.join(types)}:{depth}", len(fl))
    rep.setmax(f"max_api_configurations_per_filter:{'+'.join(types)}:{depth}", len(cfgs))
    for n, layout in enumerate(lays):
        tb = Tbl(types, layout, f"{'-'.join(types)}-{chunk}-{n}-{si}")
        if si == 0:
            rep.add("tables")
        for f in fl[si::sn]:  # big tables: the filter catalogue is split over sn workers
            check_filter(rep, tb, f, cfgs)
            rep.add("table_filter_pairs")
    return rep.part()


def _aggregate_types(rep: Report) -> None:
    groups: Dict[str, Dict[str, Any]] = {}
    for v in rep.violations.values():
        key = dict(v["key"])
        t = key.pop("types_", "?")
        g = json.dumps(key, sort_keys=True)
        if g not in groups:
            groups[g] = {"key": key, "detail": v["detail"], "count": 0, "_t": set()}
        groups[g]["count"] += v["count"]
        groups[g]["_t"].update(t.split("+"))
    out = {}
    for v in groups.values():
        v["key"]["types"] = "+".join(sorted(v.pop("_t")))
        out[json.dumps(v["key"], sort_keys=True)] = v
    rep.violations = out


def run(tier: str, seed: int) -> Report:
    rep = Report(PROP, tier, seed, "exploration")
    payloads: List[Tuple] = []
    types = QUICK_TYPES if tier == "quick" else ALL_TYPES
    for tn in types:
        curated = layouts_1col(tn, "quick")
        lays = layouts_1col(tn, tier)
        for c, lay in enumerate(lays):
            # thorough: the curated layouts get every alias x literal and the full API x projection cross;
            # the enumerated 1-file multisets / file pairs get the quick catalogue
            deep = tier == "thorough" and lay in curated  # full API x projection cross
            if deep:
                for si in range(2):
                    payloads.append(((tn,), tier, seed, [lay], c, "full_cross", (si, 2)))
            else:
                payloads.append(((tn,), tier, seed, [lay], c, "cover", (0, 1)))
    pairs = PAIRS[:1] if tier == "quick" else PAIRS
    for t1, t2 in pairs:
        lays2 = layouts_2col(t1, t2)
        if tier == "quick":
            lays2 = lays2[2:]
        for c, l2 in enumerate(lays2):
            for si in range(6):
                payloads.insert(0, ((t1, t2), tier, seed, [l2], c, "conj", (si, 6)))
    if payloads:
        r = seed % len(payloads)
        payloads = payloads[r:] + payloads[:r]
    for part in pmap("checks.c12", "worker", payloads):
        rep.merge(part)
    _aggregate_types(rep)
    rep.cov["exhaustive"] = not rep.caps
    rep.cov["types_1col"] = types
    rep.cov["type_pairs_2col"] = ["+".join(p) for p in pairs]
    rep.cov["rule"] = (
        "column type(s) x table layout catalogue (no files; only an empty file; one file with every symbol; empty file + rows; all-NULL file; "
        "3 files; 5-row file; every 1-row file" + ("; every 1-file multiset of size 2; every pair of 0/1-row files" if tier == "thorough" else "")
        + "; 2-column tables: cross product of {NULL,a,b(,NaN)}^2 in 1 / 3 / per-value files plus an empty and an all-NULL file) x symbolic filter "
        "catalogue (every operator alias x every literal; {c: v}; in/not_in aliases x {empty, singleton, NULL-only, NULL-containing, 2 values, all "
        "values(, NaN sets)}; between x every ordered literal pair; is_null/is_not_null aliases; NULL literals; 11 malformed shapes; 2-column "
        "conjunctions of 17-19 conditions per column) x API configurations (scan seq/parallel=2, scan_batches 1/2/10000, iter_records; verify on/off; "
        "projections: every API with all columns and with a projection lacking the filter column, scan and scan_batches_2 with every projection"
        + ("; the curated 1-column layouts with the full API x projection cross" if tier == "thorough" else "")
        + ").  A (table, filter) pair is non-trivial when the reference says a proper non-empty subset of the rows must match, when a row's verdict is "
        "unspecified (cross-API comparison only), or when the filter is malformed and the table has files; distinct = (types, layout, filter)")
    rep.assumptions += [
        "rows whose truth value hinges on a comparison with NaN (NaN row value or NaN literal, incl. NaN inside an in/not_in set) are not judged "
        "against the reference: the statement fixes NULL semantics, not NaN ordering; they are compared across API configurations only",
        "not_in with a NULL in the set: members and NULL rows must not match; a non-NULL non-member is NULL in strict SQL and TRUE under the library's "
        "documented reading ('a NULL in the set matches nothing') - both accepted, compared across APIs only",
        "not_in [] matches every non-NULL row and no NULL row; in [] matches nothing",
        "a NULL literal in a comparison or between bound (('==', None), ('between', (None, b))) may either raise or match no row; {'c': None} must raise",
        "'raise' means any exception (the statement does not name a type); the observed types are recorded in malformed_exception_types",
        "operator aliases (=, eq, <>, ne, lt, le, gt, ge, 'not in', notin, isnull, notnull, isnotnull) are not named by the statement: each must either "
        "behave exactly like its canonical operator or be rejected by every API",
        "('is_null', False), upper-case operators, list-valued equality and an empty projection (columns=[]) are outside the enumerated space",
        "the key order of returned dicts and the row order are not judged (multisets of rows are compared)",
        "Table._get_all_data_files/_get_current_schema are memoised on the quiescent table (pure metadata reads, identical for every call)",
        "to_pandas / iter_pandas cannot run (pandas is not installed)",
    ]
    return rep


def replay(case: Dict[str, Any]) -> Dict[str, Any]:
    d = case["detail"]
    types = list(d["types"])
    layout = _jt(d["layout"])
    f = _jt(d["filter"])
    rep = Report(PROP, "quick", 0, "exploration")
    tb = Tbl(types, layout, "replay")
    cfgs = configs(tb.cols, [c for c in tb.cols if c != "k"], "all")
    check_filter(rep, tb, f, cfgs)
    want = {k: v for k, v in case["key"].items() if k != "types"}
    hits = [v for v in rep.violations.values() if {k: x for k, x in v["key"].items() if k != "types_"} == want]
    return {"violated": bool(hits), "matching": hits[:1], "all_keys": [v["key"] for v in rep.violations.values()][:10]}
