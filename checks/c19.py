"""C19 - locks exclude, time out, and never report a lock that is not held.

Local lock (datashard.file_lock.FileLock, real flock on tmpfs):
  * E1 at syscall granularity (open / flock / close): 2-3 contenders x
    {lock file absent | present} x 1-2 rounds of acquire / critical section
    / release (one contender may use the non-blocking mode); oracle: critical
    sections never overlap, is_held() tells the truth, no deadlock.
  * timeout: a holder that never releases; the waiter must raise TimeoutError
    after [timeout, timeout + one poll] of virtual time and never succeed.
  * holder death: for every os-level step k of acquire+release a real child
    process is SIGKILLed at step k; a contender must then acquire.
S3 CAS lock (datashard.lock_provider.S3LockProvider over the in-memory S3):
  * E1 at request granularity with heartbeat threads, clock jumps (+61 s) and
    process pauses; oracle on the server: an owner-changing conditional PUT
    succeeds only on an absent or lease-lapsed object; acquire() / is_held()
    returning True imply the object carries the caller's id at that instant;
    without time deviations critical sections never overlap.
  * timeout: live holder (heartbeat renewing) => TimeoutError within
    [timeout, timeout + one retry sleep], never success.
"""
from __future__ import annotations

import json
import os
import signal
import subprocess
import sys
from typing import Any, Dict, List, Optional, Tuple

from dsmc.env import ENV, T0
from dsmc.fakes3 import FakeS3
from dsmc.localfs import install_local_seams
from dsmc.report import HarnessError, Report, pmap
from dsmc.sched import DONE, Execution, Explorer, Op, World, install_threading_seams
from dsmc.tables import fresh_dir
from dsmc.worlds import LocalAdapter, S3Adapter, root_actor

LEASE = 60.0


class CS:
    """Critical-section bookkeeping shared by both worlds."""

    def __init__(self) -> None:
        self.inside: Optional[str] = None
        self.overlaps: List[Tuple[str, str]] = []
        self.unexcused: List[Tuple[str, str]] = []
        self.since: Dict[str, int] = {}
        self.entries = 0
        self.order: List[str] = []

    def enter(self, who: str, epoch: int = 0, acquired_at: Optional[int] = None) -> None:
        """epoch = number of clock deviations so far, acquired_at = that number when `who` acquired the lock.  An
        overlap is excused by a lapsed lease only if a deviation happened after the EARLIER of the two acquisitions
        (a lease that was already old when its holder acquired excuses nothing)."""
        self.since[who] = epoch if acquired_at is None else acquired_at
        if self.inside is not None and self.inside != who:
            self.overlaps.append((self.inside, who))
            if epoch <= min(self.since.get(self.inside, 0), self.since[who]):
                self.unexcused.append((self.inside, who))
        self.inside = who
        self.entries += 1
        self.order.append(who)

    def leave(self, who: str) -> None:
        if self.inside == who:
            self.inside = None


# ---------------------------------------------------------------------------
# local lock
# ---------------------------------------------------------------------------
class LocalLockWorld(World):
    def __init__(self, cfg: Dict[str, Any], rep: Report):
        install_local_seams()
        install_threading_seams()
        self.cfg, self.rep = cfg, rep
        self.root = fresh_dir(f"c19-{os.getpid()}")
        self.adapter = LocalAdapter(self.root)
        os.makedirs(os.path.join(self.root, ".locks"), exist_ok=True)
        self.lock_path = os.path.join(self.root, ".locks", "metadata.lock")
        if cfg["file"] == "present":
            open(self.lock_path, "w").close()
        self.adapter.save_template(self.root + ".template")
        ENV.hooks.append(self.adapter)
        self.cs = CS()
        self.outcomes: Dict[Any, int] = {}
        self.truth: List[str] = []

    def close(self) -> None:
        if self.adapter in ENV.hooks:
            ENV.hooks.remove(self.adapter)

    def reset(self) -> None:
        from datashard.file_lock import FileLock

        self.adapter.reset()
        ENV.clock = T0 + 100.0
        self.cs = CS()
        self.truth = []
        self.shared_lock = FileLock(self.lock_path, timeout=self.cfg.get("timeout", 30.0))

    def digest(self) -> Any:
        return (self.adapter.digest(), self.cs.inside)

    def actors(self):
        out = []
        for i, mode in enumerate(self.cfg["modes"]):
            out.append((chr(ord("A") + i), self._body(chr(ord("A") + i), mode)))
        return out

    def _body(self, name: str, mode: str):
        from datashard.file_lock import FileLock

        rounds = self.cfg.get("rounds", 1)
        path = self.lock_path
        w = self

        def body():
            s = ENV.sched
            if w.cfg.get("shared_object"):
                # both contenders are threads that were handed the SAME lock object
                lk = w.shared_lock
            else:
                lk = FileLock(path, timeout=self.cfg.get("timeout", 30.0))
            got = 0
            if mode == "hold_forever":
                lk.acquire()
                w.cs.enter(name)
                s.sleep(3 * self.cfg.get("timeout", 30.0) + 1.0, strict=True)  # far beyond the waiter's timeout
                w.cs.leave(name)
                lk.release()
                return "held"
            for _ in range(rounds):
                if mode == "nonblocking":
                    if not lk.acquire(blocking=False):
                        if lk.is_held():
                            w.truth.append(f"{name}: is_held() True after a failed non-blocking acquire")
                        continue
                else:
                    t0 = ENV.clock
                    try:
                        lk.acquire()
                    except TimeoutError:
                        return ("timeout", round(ENV.clock - t0, 6))
                if not lk.is_held():
                    w.truth.append(f"{name}: is_held() False right after acquire")
                w.cs.enter(name)
                s.point(Op("w", "cs", f"critical-section step of {name}"))
                w.cs.leave(name)
                lk.release()
                if lk.is_held():
                    w.truth.append(f"{name}: is_held() True after release")
                got += 1
            return got

        return body

    def check(self, ex: Execution) -> None:
        problems: List[str] = []
        if ex.deadlock:
            problems.append("deadlock")
        if self.cs.overlaps:
            problems.append(f"critical sections overlapped: {self.cs.overlaps[:3]}")
        problems += self.truth[:3]
        res = {}
        for a in ex.actors:
            if a.exc is not None:
                problems.append(f"{a.name} raised {type(a.exc).__name__}: {a.exc}")
            res[a.name] = a.result
        to = self.cfg.get("timeout", 30.0)
        for i, mode in enumerate(self.cfg["modes"]):
            n = chr(ord("A") + i)
            r = res.get(n)
            if self.cfg.get("expect_timeout") and mode == "blocking":
                holder_first = bool(self.cs.order) and self.cs.order[0] != n
                if not (isinstance(r, tuple) and r[0] == "timeout"):
                    if holder_first:
                        problems.append(f"{n} did not time out while the holder was live: {r!r}")
                elif not holder_first:
                    problems.append(f"{n} timed out although nobody held the lock: {r!r}")
                elif not (to - 1e-9 <= r[1] <= to + 0.01 + 1e-6):
                    problems.append(f"{n} timed out after {r[1]}s, configured {to}s (poll 0.01s)")
            elif mode == "blocking" and not self.cfg.get("expect_timeout"):
                if r != self.cfg.get("rounds", 1):
                    problems.append(f"{n} completed {r!r} of {self.cfg.get('rounds', 1)} rounds")
        okey = tuple(sorted((k, repr(v)) for k, v in res.items()))
        self.outcomes[okey] = self.outcomes.get(okey, 0) + 1
        self.rep.nontrivial((self.cfg["id"], okey, tuple(t.split(":")[0] for t in ex.trace if "flock(EX" in t)))
        if problems:
            self.rep.violation({"lock": "local", "scenario": self.cfg["id"], "problem": problems[0].split(":")[0][:60]},
                               {"config": self.cfg, "choices": ex.choices, "schedule": ex.trace, "problems": problems,
                                "shared_keys": sorted(ex.ex.shared_keys), "shared_prefixes": sorted(ex.ex.shared_prefixes)})


# ---------------------------------------------------------------------------
# S3 CAS lock
# ---------------------------------------------------------------------------
class S3LockWorld(World):
    KEY = "tbl/.locks/metadata.lock"

    def __init__(self, cfg: Dict[str, Any], rep: Report):
        install_threading_seams()
        import datashard.lock_provider as lp

        self.cfg, self.rep = cfg, rep
        self.fake = FakeS3("bkt")
        self.adapter = S3Adapter(self.fake)
        self.cs = CS()
        self.outcomes: Dict[Any, int] = {}
        self.truth: List[str] = []
        self.server: List[str] = []
        self.locks: List[Any] = []
        self._prev: Dict[int, Any] = {}
        self.max_pauses = cfg.get("max_pauses", 0)
        self.fake.gates.append(self._gate)
        self.fake.after.append(self._after)
        w = self
        self._orig_is_held = lp.S3LockProviderBase.is_held
        self._orig_try = lp.S3LockProvider._try_acquire

        def is_held(self_):
            r = w._orig_is_held(self_)
            if r:
                o = w.fake.objs.get(self_.key)
                if o is None or w.lock_writer != root_actor(ENV.actor()):
                    w.truth.append(f"{ENV.actor()}: is_held() returned True but the lock object "
                                   f"{'is absent' if o is None else 'was last written by ' + str(w.lock_writer)}")
            return r

        def _try(self_):
            r = w._orig_try(self_)
            if r:
                o = w.fake.objs.get(self_.key)
                if o is None or w.lock_writer != root_actor(ENV.actor()):
                    w.truth.append(f"{ENV.actor()}: acquire succeeded but the lock object is not the caller's")
            return r

        lp.S3LockProviderBase.is_held = is_held
        lp.S3LockProvider._try_acquire = _try

    def close(self) -> None:
        import datashard.lock_provider as lp

        lp.S3LockProviderBase.is_held = self._orig_is_held
        lp.S3LockProvider._try_acquire = self._orig_try

    # server-side rule: owner changes only on absent / lease-lapsed objects
    def _gate(self, req: Any) -> None:
        if self.cfg.get("release_fault") and req.op == "DELETE" and req.key == self.KEY and not self.release_fault_fired \
                and root_actor(req.actor) == "A":
            # A's first release fails at the DELETE (503): the lock object stays behind, naming A
            from botocore.exceptions import ClientError

            self.release_fault_fired = True
            raise ClientError({"Error": {"Code": "ServiceUnavailable", "Message": "injected"},
                               "ResponseMetadata": {"HTTPStatusCode": 503}}, "DeleteObject")
        if req.op == "PUT" and req.key == self.KEY:
            self._prev[req.idx] = self.fake.objs.get(req.key)

    def _after(self, req: Any, res: Any) -> None:
        if req.key == self.KEY and req.op == "DELETE" and not isinstance(res, BaseException):
            if self.lock_writer is not None and self.lock_writer != root_actor(req.actor):
                # a release removed a lock object that somebody else had written in the meantime
                self.foreign_deletes.append((root_actor(req.actor), self.lock_writer))
            self.lock_writer = None
        if req.op == "PUT" and req.key == self.KEY and not isinstance(res, BaseException):
            prev = self._prev.get(req.idx)
            new = self.fake.objs[req.key]
            prev_writer, self.lock_writer = self.lock_writer, root_actor(req.actor)
            # ownership is tracked by WHO wrote the object (the identifiers inside it are the library's business)
            if prev is not None and prev_writer != self.lock_writer:
                age = (ENV.clock + self.fake.clock_skew) - prev.lm  # on the server's clock, which stamped LastModified
                if age <= LEASE:
                    self.server.append(f"{req.actor} took the lock over from a holder whose lease had not lapsed (age {age:.3f}s)")
                if req.cond is None:
                    self.server.append(f"{req.actor} changed the lock owner with an unconditional PUT")

    def reset(self) -> None:
        from datashard.lock_provider import S3LockProvider

        self.fake.load_state({})
        self.fake.clock_skew = float(self.cfg.get("skew", 0.0))  # server clock ahead of the clients' by this much
        self.adapter.reset()
        ENV.clock = T0 + 100.0
        self.cs = CS()
        self.truth, self.server, self._prev = [], [], {}
        self.release_fault_fired = False
        self.foreign_deletes = []
        self.lock_writer = None
        self.locks = [S3LockProvider(self.fake, "bkt", self.KEY, timeout=self.cfg.get("timeout", 30.0))
                      for _ in self.cfg["modes"]]

    def digest(self) -> Any:
        return (self.fake.digest, self.cs.inside)

    def actors(self):
        return [(chr(ord("A") + i), self._body(chr(ord("A") + i), i, m)) for i, m in enumerate(self.cfg["modes"])]

    def _body(self, name: str, i: int, mode: str):
        w = self
        rounds = self.cfg.get("rounds", 1)

        def body():
            s = ENV.sched
            lk = w.locks[i]
            if mode == "hold_forever":
                lk.acquire()
                w.cs.enter(name)
                s.sleep(3 * w.cfg.get("timeout", 30.0) + 1.0, strict=True)  # far beyond the waiter's timeout; heartbeat keeps renewing
                w.cs.leave(name)
                lk.release()
                return "held"
            got = 0
            for _ in range(rounds):
                t0 = ENV.clock
                try:
                    lk.acquire()
                except TimeoutError:
                    return ("timeout", round(ENV.clock - t0, 6))
                acq = s.jumps
                if lk.is_held():
                    w.cs.enter(name, s.jumps, acq)
                    s.point(Op("w", "cs", f"critical-section step of {name}"))
                    w.cs.leave(name)
                    got += 1
                lk.release()
                if lk.is_held():
                    w.truth.append(f"{name}: is_held() True after release")
            return got

        return body

    def extra_options(self, ex: Execution) -> List[Tuple]:
        opts: List[Tuple] = []
        for a in ex.actors:
            if "." in a.name:
                continue
            if a.frozen:
                opts.append(("resume", a.name))
            elif a.state != DONE and ex.jumps < self.max_pauses and a.steps > 0:
                opts.append(("pause+61s", a.name))
        return opts

    def apply_extra(self, ex: Execution, opt: Tuple) -> None:
        kind, name = opt
        for a in ex.actors:
            if root_actor(a.name) == name:
                a.frozen = (kind != "resume")
        if kind != "resume":
            ENV.clock = round(ENV.clock + LEASE + 1.0, 6)
            ex.jumps += 1

    def check(self, ex: Execution) -> None:
        problems: List[str] = []
        if ex.deadlock:
            problems.append("deadlock")
        problems += self.server[:3] + self.truth[:3]
        deviated = ex.jumps > 0
        if self.cs.overlaps and not deviated:
            problems.append(f"critical sections overlapped without any lease lapse: {self.cs.overlaps[:3]}")
        elif self.cs.unexcused:
            problems.append(f"critical sections overlapped although no time passed while the first holder was inside: "
                            f"{self.cs.unexcused[:3]}")
        res = {}
        for a in ex.actors:
            if "." in a.name:
                continue
            if a.exc is not None:
                problems.append(f"{a.name} raised {type(a.exc).__name__}: {a.exc}")
            res[a.name] = a.result
        to = self.cfg.get("timeout", 30.0)
        for i, mode in enumerate(self.cfg["modes"]):
            n = chr(ord("A") + i)
            r = res.get(n)
            if self.cfg.get("expect_timeout") and mode == "blocking":
                holder_first = bool(self.cs.order) and self.cs.order[0] != n
                if not (isinstance(r, tuple) and r[0] == "timeout"):
                    if holder_first:
                        problems.append(f"{n} did not time out while the holder was live: {r!r}")
                elif not holder_first:
                    problems.append(f"{n} timed out although nobody held the lock: {r!r}")
                elif not (to - 1e-9 <= r[1] <= to + 0.6 + 1e-6):
                    problems.append(f"{n} timed out after {r[1]}s, configured {to}s (retry sleep 0.6s)")
        if deviated:
            self.rep.add("executions_with_lease_lapse")
        if any("PUT[IfMatch]" in t for t in ex.trace):
            self.rep.add("executions_with_renewal_or_takeover")
        okey = tuple(sorted((k, repr(v)) for k, v in res.items())) + (bool(self.cs.overlaps),)
        self.outcomes[okey] = self.outcomes.get(okey, 0) + 1
        self.rep.nontrivial((self.cfg["id"], okey))
        if problems:
            self.rep.violation({"lock": "s3", "scenario": self.cfg["id"], "problem": problems[0].split(":")[0][:70],
                                "a_release_deleted_somebody_elses_lock_object": bool(self.foreign_deletes)},
                               {"config": self.cfg, "choices": ex.choices, "schedule": ex.trace, "problems": problems,
                                "foreign_deletes": self.foreign_deletes,
                                "shared_keys": sorted(ex.ex.shared_keys), "shared_prefixes": sorted(ex.ex.shared_prefixes)})


# ---------------------------------------------------------------------------
# holder death (real processes)
# ---------------------------------------------------------------------------
_CHILD = r"""
import os, signal, sys
sys.path.insert(0, '/verif')
from dsmc.env import install, ENV
install()
from dsmc.localfs import install_local_seams
install_local_seams()
from datashard.file_lock import FileLock
k = int(sys.argv[2])
class Killer:
    n = 0
    def before(self, ev):
        pass
    def after(self, ev, res, exc):
        if ev.mod != 'file_lock':
            return
        Killer.n += 1
        if Killer.n == k:
            os.kill(os.getpid(), signal.SIGKILL)
ENV.hooks.append(Killer())
lk = FileLock(sys.argv[1], timeout=5.0)
lk.acquire()
lk.release()
print('steps', Killer.n)
"""


def death_case(payload: Tuple[str, int]) -> Dict[str, Any]:
    tier, seed = payload
    install_local_seams()
    from datashard.file_lock import FileLock

    rep = Report("C19", tier, seed, "model_checking")
    root = fresh_dir(f"c19-death-{os.getpid()}")
    path = os.path.join(root, ".locks", "metadata.lock")
    env = dict(os.environ, PYTHONHASHSEED="0")  # PYTHONPATH inherited: the tree under test comes first
    # how many file_lock-level steps does acquire+release take?
    out = subprocess.run([sys.executable, "-c", _CHILD, path, "0"], env=env, capture_output=True, text=True, timeout=120)
    if "steps" not in out.stdout:
        raise HarnessError(f"death child failed: {out.stderr[-400:]}")
    steps = int(out.stdout.split()[-1])
    for k in range(1, steps + 1):
        p = subprocess.run([sys.executable, "-c", _CHILD, path, str(k)], env=env, capture_output=True, text=True, timeout=120)
        killed = p.returncode == -signal.SIGKILL
        rep.add("holder_kill_points")
        ENV.reset(seed)
        lk = FileLock(path, timeout=0.05)
        ok, err = False, None
        try:
            ok = lk.acquire()
            held = lk.is_held()
            lk.release()
        except Exception as e:  # noqa
            err = f"{type(e).__name__}: {e}"
            held = False
        rep.nontrivial(("death", k, killed))
        if not killed:
            raise HarnessError(f"child was not killed at step {k}: rc={p.returncode} {p.stderr[-200:]}")
        if not ok or not held or err:
            rep.violation({"lock": "local", "scenario": "holder_death", "problem": "contender could not acquire after the holder died"},
                          {"kill_after_step": k, "of": steps, "error": err})
    rep.sample({"scenario": "holder_death", "kill_points": steps})
    return rep.part()


_FORK = r"""
import os, sys, time, json
from datashard.file_lock import FileLock
path, cycles, holder = sys.argv[1], int(sys.argv[2]), sys.argv[3]
lk = FileLock(path, timeout=0.4)
for _ in range(cycles):          # the handle has already been used (completed acquire/release cycles) before the fork
    lk.acquire(); lk.release()
res = {}
if holder == "parent":
    lk.acquire()
r, w = os.pipe()          # child -> parent: result
r2, w2 = os.pipe()        # child -> parent: "I hold the lock now"
r3, w3 = os.pipe()        # parent -> child: "I am done trying, release"
pid = os.fork()
if pid == 0:
    os.close(r); os.close(r2); os.close(w3)
    out = {}
    t0 = time.monotonic()
    try:
        out["acquired"] = bool(lk.acquire())          # the INHERITED lock object
        out["held"] = bool(lk.is_held())
        os.write(w2, b"1")
        if holder == "child":
            os.read(r3, 1)                             # hold until the parent has made its attempt
        lk.release()
    except TimeoutError:
        out["acquired"] = False
        os.write(w2, b"0")
    except Exception as e:
        out["error"] = type(e).__name__
        os.write(w2, b"0")
    out["waited"] = round(time.monotonic() - t0, 2)
    os.write(w, json.dumps(out).encode()); os._exit(0)
os.close(w); os.close(w2); os.close(r3)
ready = os.read(r2, 1)                                 # no sleeps: the two processes are synchronised by pipes
if holder == "child":
    if ready == b"1":
        try:
            res["parent_acquired"] = bool(lk.acquire()); lk.release()
        except TimeoutError:
            res["parent_acquired"] = False
    os.write(w3, b"1")
data = b""
while True:
    b = os.read(r, 4096)
    if not b: break
    data += b
os.waitpid(pid, 0)
res["child"] = json.loads(data.decode() or "{}")
if holder == "parent":
    res["parent_still_holds"] = bool(lk.is_held())
    # an unrelated contender with its own lock object, while the parent still holds
    other = FileLock(path, timeout=0.2)
    try:
        res["other_acquired"] = bool(other.acquire()); other.release()
    except TimeoutError:
        res["other_acquired"] = False
    lk.release()
print(json.dumps(res))
"""


def fork_case(payload: Tuple[str, int]) -> Dict[str, Any]:
    """A lock object inherited through fork(): {never used, used for 1 or 2 complete cycles before the fork} x {the
    parent holds and the child tries, the child holds and the parent tries}.  Two processes never hold at once."""
    tier, seed = payload
    rep = Report("C19", tier, seed, "model_checking")
    root = fresh_dir(f"c19-fork-{os.getpid()}")
    os.makedirs(os.path.join(root, ".locks"), exist_ok=True)
    path = os.path.join(root, ".locks", "metadata.lock")
    env = dict(os.environ, PYTHONHASHSEED="0")
    for cycles in (0, 1, 2):
        for holder in ("parent", "child"):
            p = subprocess.run([sys.executable, "-c", _FORK, path, str(cycles), holder], env=env, capture_output=True,
                               text=True, timeout=120)
            rep.add("fork_inheritance_cases")
            rep.nontrivial(("fork", cycles, holder))
            try:
                res = json.loads(p.stdout.strip().splitlines()[-1])
            except Exception:
                raise HarnessError(f"fork case {cycles}/{holder} failed: rc={p.returncode} {p.stderr[-300:]}")
            probs = []
            ch = res.get("child", {})
            if holder == "parent":
                if ch.get("acquired"):
                    probs.append("the child acquired through the inherited lock object while the parent holds")
                if not res.get("parent_still_holds"):
                    probs.append("the parent no longer holds after the child's attempt")
                if res.get("other_acquired"):
                    probs.append("an unrelated contender acquired while the parent still holds")
            else:
                if not ch.get("acquired"):
                    probs.append(f"the child could not acquire a free lock: {ch}")
                if res.get("parent_acquired"):
                    probs.append("the parent acquired while the child holds")
            if probs:
                rep.violation({"lock": "local", "scenario": "fork_inherited_lock_object", "problem": probs[0][:70]},
                              {"completed_cycles_before_fork": cycles, "holder": holder, "result": res, "problems": probs})
    return rep.part()


def dead_holder_case(payload: Tuple[str, int]) -> Dict[str, Any]:
    """S3 lock whose holder died (no renewal, no release): for every age of the lock object in a list that brackets the
    lease and whole days, a contender must refuse to take over before the lease lapsed and must take over after it,
    within its timeout - for both lock providers (conditional writes / polling)."""
    from datashard.lock_provider import S3LockProvider, S3PollingLockProvider

    tier, seed = payload
    install_threading_seams()
    rep = Report("C19", tier, seed, "model_checking")
    ages = [1.0, LEASE - 1.0, LEASE + 1.0, 3600.0, 86400.0 - 30.0, 86400.0 + 5.0, 86400.0 + 59.0, 2 * 86400.0 + 20.0,
            7 * 86400.0 + 1.0]
    for cls in (S3LockProvider, S3PollingLockProvider):
        for age in ages:
            ENV.reset(seed)
            fake = FakeS3("bkt")
            a = cls(fake, "bkt", S3LockWorld.KEY, timeout=2.0)
            if not a.acquire():
                raise HarnessError("first acquire failed")
            # the holder's process is gone: its heartbeat never runs (threads are not started outside an exploration)
            ENV.advance(age)
            b = cls(fake, "bkt", S3LockWorld.KEY, timeout=5.0)
            t0 = ENV.clock
            try:
                got = bool(b.acquire())
            except TimeoutError:
                got = False
            waited = ENV.clock - t0
            rep.add("dead_holder_cases")
            rep.nontrivial(("dead-holder", cls.__name__, age))
            lapsed = age > LEASE
            if not lapsed and got and age + waited > LEASE:
                continue  # the lease lapsed while the contender was waiting: a legitimate takeover
            if got != lapsed or waited > 5.0 + 1.0:
                rep.violation({"lock": "s3", "scenario": "dead_holder", "problem":
                               "lock of a dead holder not taken over after its lease lapsed" if lapsed else
                               "lock taken over before its lease lapsed"},
                              {"provider": cls.__name__, "age_of_lock_object_s": age, "acquired": got, "waited_s": round(waited, 3)})
    return rep.part()


# ---------------------------------------------------------------------------
def run_config(cfg: Dict[str, Any]) -> Dict[str, Any]:
    rep = Report("C19", cfg["tier"], cfg["seed"], "model_checking")
    w: Any = LocalLockWorld(cfg, rep) if cfg["lock"] == "local" else S3LockWorld(cfg, rep)
    try:
        exp = Explorer(w, bound=cfg.get("bound"), seed=cfg["seed"], clock_mode="TICK", horizon=cfg.get("horizon", 8000),
                       max_jumps=cfg.get("max_jumps", 0), jump_amounts=[LEASE + 1.0] if cfg.get("max_jumps") else [],
                       has_extra=bool(cfg.get("max_pauses")), max_exec=cfg.get("max_exec"))
        exp.on_complete = w.check
        stats = exp.explore()
        exp.visited.clear()
        sample = exp.execute([]) if cfg.get("sample") else None
    finally:
        w.close()
    rep.add("states", stats["states"])
    rep.add("transitions", stats["transitions"])
    rep.add("executions", stats["executions"])
    rep.add("traces_validated_against_impl", stats["complete"] + stats["deadlocks"])
    rep.add("determinism_replays", stats["determinism_replays"])
    rep.add("configs")
    rep.setmax("max_depth", stats["max_depth"])
    rep.cov.setdefault("per_config", {})[cfg["id"]] = stats["executions"]
    rep.cov.setdefault("distinct_outcomes", {})[cfg["id"]] = len(w.outcomes)
    rep.add("critical_section_entries", 0)
    if stats["capped"] or exp.cap_hit:
        rep.caps.append(f"{cfg['id']}: cap hit")
    if sample is not None:
        rep.sample({"config": cfg["id"], "default_schedule": sample.trace[:60]})
    return rep.part()


def configs(tier: str, seed: int) -> List[Dict[str, Any]]:
    out: List[Dict[str, Any]] = []

    def add(lock, cid, **kw):
        d = {"id": f"{lock}/{cid}", "lock": lock, "tier": tier, "seed": seed}
        d.update(kw)
        out.append(d)

    for f in ("absent", "present"):
        add("local", f"2x1/{f}", file=f, modes=["blocking", "blocking"], rounds=1, sample=(f == "absent"))
        add("local", f"2x2/{f}", file=f, modes=["blocking", "blocking"], rounds=2)
        add("local", f"nb/{f}", file=f, modes=["blocking", "nonblocking"], rounds=2)
    add("local", "timeout", file="present", modes=["hold_forever", "blocking"], rounds=1, timeout=0.05, expect_timeout=True)
    add("local", "3x1", file="present", modes=["blocking"] * 3, rounds=1)
    # two threads that share one lock object: while the first holds it the second must wait / time out
    add("local", "timeout/shared_object", file="present", modes=["hold_forever", "blocking"], rounds=1, timeout=0.05,
        expect_timeout=True, shared_object=True)
    add("s3", "2x1", modes=["blocking", "blocking"], rounds=1, sample=True)
    add("s3", "2x2", modes=["blocking", "blocking"], rounds=2, bound=None if tier != "quick" else 3)
    add("s3", "timeout", modes=["hold_forever", "blocking"], rounds=1, timeout=30.0, expect_timeout=True, horizon=20000)
    # the S3 server's clock runs 1.5 s ahead of the clients': a fresh lock's LastModified lies in the clients' future
    add("s3", "2x1/server_clock_ahead", modes=["blocking", "blocking"], rounds=1, skew=1.5)
    add("s3", "timeout/server_clock_ahead", modes=["hold_forever", "blocking"], rounds=1, timeout=30.0, expect_timeout=True,
        horizon=20000, skew=1.5)
    add("s3", "2x1/jump1", modes=["blocking", "blocking"], rounds=1, max_jumps=1, bound=2 if tier == "quick" else None)
    add("s3", "2x1/pause1", modes=["blocking", "blocking"], rounds=1, max_pauses=1, bound=1 if tier == "quick" else 3)
    # A's first release fails at the DELETE, time passes, A acquires again: that acquisition must start a fresh lease
    add("s3", "2x2/release_fault/jump1", modes=["blocking", "blocking"], rounds=2, max_jumps=1, release_fault=True, timeout=2.0,
        bound=1 if tier == "quick" else 2)
    if tier != "quick":
        add("local", "3x2", file="present", modes=["blocking"] * 3, rounds=2, bound=3)
        add("s3", "3x1", modes=["blocking"] * 3, rounds=1, bound=2)
        add("s3", "2x1/jump2", modes=["blocking", "blocking"], rounds=1, max_jumps=2, bound=2)
        add("s3", "2x1/pause2", modes=["blocking", "blocking"], rounds=1, max_pauses=2, bound=1)
        add("s3", "3x1/pause1", modes=["blocking"] * 3, rounds=1, max_pauses=1, bound=1)
    return out


def run(tier: str, seed: int) -> Report:
    rep = Report("C19", tier, seed, "model_checking")
    for part in pmap("checks.c19", "run_config", configs(tier, seed)):
        rep.merge(part)
    for part in pmap("checks.c19", "dead_holder_case", [(tier, seed)]):
        rep.merge(part)
    for part in pmap("checks.c19", "fork_case", [(tier, seed)]):
        rep.merge(part)
    for part in pmap("checks.c19", "death_case", [(tier, seed)]):
        rep.merge(part)
    rep.cov["exhaustive"] = not rep.caps
    rep.cov["rule"] = ("one execution = one complete interleaving of the contenders at syscall (local) / request (S3) granularity "
                       "on the real lock code; non-trivial = distinct (scenario, per-contender outcome, acquisition order)")
    rep.assumptions += [
        "local lock: real flock on tmpfs between distinct open file descriptions of one process (the kernel treats them like "
        "separate processes); cross-process exclusion after holder death is exercised with real SIGKILLed children at every step",
        "S3 lock: in-memory S3 with conditional writes; lease 60 s; lease lapse only through explicit clock jumps / process pauses",
        "the quantifier's 'real multi-process stress' is sampling and is replaced by the enumerated kill points",
    ]
    return rep


def replay(case: Dict[str, Any]) -> Dict[str, Any]:
    d = case["detail"]
    if "config" not in d:
        part = death_case(("quick", case.get("seed", 0)))
        return {"violated": bool(part["violations"]), "violations": list(part["violations"].values())}
    cfg = d["config"]
    rep = Report("C19", cfg["tier"], cfg["seed"], "model_checking")
    w: Any = LocalLockWorld(cfg, rep) if cfg["lock"] == "local" else S3LockWorld(cfg, rep)
    try:
        exp = Explorer(w, seed=cfg["seed"], clock_mode="TICK", max_jumps=cfg.get("max_jumps", 0),
                       jump_amounts=[LEASE + 1.0] if cfg.get("max_jumps") else [], has_extra=bool(cfg.get("max_pauses")),
                       horizon=cfg.get("horizon", 8000))
        exp.shared_keys, exp.shared_prefixes = set(d["shared_keys"]), set(d["shared_prefixes"])
        ex = exp.execute(d["choices"])
        w.check(ex)
    finally:
        w.close()
    return {"violated": bool(rep.violations), "schedule": ex.trace, "violations": list(rep.violations.values())}
