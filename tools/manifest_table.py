# executed by mkmanifest.py ; add(pid, engine, category, technique, text, note, design_ref)
add("C16", "E3", "fault_enumeration",
    "exhaustive power-loss state enumeration: every prefix of the traced os-call sequence x every subset of unflushed effects",
    "Every prefix of the real write path's os-level trace (write/fsync/rename/unlink/dir-fsync) over multi-operation "
    "histories, crossed with every subset of not-yet-durable effects, is materialised in a POSIX durability model and "
    "checked: a surviving pointer implies every reachable file survives with final content. Exhaustive within the "
    "histories run; this is the right level because the property is an ordering property of a short syscall sequence.",
    "POSIX durability model (content at fsync(fd), entries at fsync(dirfd), atomic rename); pyarrow writer bytes are "
    "volatile until the library's fsync; seams see every os call the library's modules make (module-level os/tempfile/pq proxies).",
    "DESIGN.md 2.4 E3c, 3 C16")
add("C01", "E1", "model_checking",
    "stateless interleaving exploration of the real commit path under a controlled scheduler (state cache, deviation bounds)",
    "Every interleaving of 2 writers (all unordered operation pairs x {shared handle, separate handles} x {local flock, "
    "CAS-S3 over an in-memory S3} x {ticking, frozen clock}) at shared-storage-operation granularity is executed on the "
    "real code, without a preemption bound; 3-4 writers under a stated preemption bound. Each complete execution is judged "
    "against a sequential reference model applied in pointer-advance order. A coverage statement over schedules is exactly "
    "what the property quantifies over.",
    "Scheduling points only at operations on objects shared by >=2 actors (dynamic shared-set fixpoint, Lipton reduction); "
    "in-memory S3 is strongly consistent with AWS conditional-write semantics; local backend uses real flock/rename on tmpfs; "
    "the virtual clock replaces wall time; no unsynchronised shared memory between points (shared-field audit in DESIGN.md).",
    "DESIGN.md 2.4 E1, 3 C01")
add("C06", "E1", "model_checking",
    "stateless interleaving exploration (collector || transactions) on the real code with state cache",
    "Every interleaving of one collector with a committing / rolling-back / conflicting transaction, at shared-storage-"
    "operation granularity, local and CAS-S3, with the transaction's files on both sides of the grace period; "
    "2 actors unbounded, 3 actors under a stated preemption bound. Oracle: every file of every snapshot of the final "
    "metadata exists and parses (independent reader).",
    "Same engine assumptions as C01; grace 1 h vs. millisecond virtual runs (the property's proviso).",
    "DESIGN.md 3 C06")
