#!/usr/bin/env python3
"""Print one markdown row per evidence file: id | level | evaluations | states/executions | wall."""
import glob, json
for f in sorted(glob.glob('/verif/evidence/C*.json')):
    e = json.load(open(f))
    c = e['coverage']
    bits = []
    for k in ('configs', 'executions', 'states', 'transitions', 'evaluations', 'distinct_nontrivial'):
        if k in c and not isinstance(c[k], (dict, list)):
            bits.append(f"{k}={c[k]}")
    print(f"| {e['property_id']} | {e['level']} | {e['tier']} | {', '.join(bits)} | caps={len(c.get('caps_hit', []))} | {e['wall_s']:.0f} s |")
