"""os-level seams for the local backend (DESIGN.md 2.1).

`datashard.storage_backend`, `datashard.data_operations`, `datashard.file_lock`
and `datashard.integrity` get module-level `os` / `tempfile` / `open` / `pq` /
`fcntl` attributes that are thin proxies around the real ones.  Each intercepted
call produces an `Ev`; listeners registered in `ENV.hooks` see it *before* the
effect (scheduling point, fault, crash snapshot) and *after* it (observation,
trace).  With no listener registered the proxies only keep file mtimes on the
virtual clock.
"""
from __future__ import annotations

import builtins
import os as _os
import tempfile as _tempfile
from typing import Any, Optional

from .env import ENV

_REAL_OPEN = builtins.open


class Ev:
    __slots__ = ("mod", "fn", "path", "path2", "fd", "kind", "actor", "idx", "n", "flags", "data")

    def __init__(self, mod: str, fn: str, path: Optional[str] = None, path2: Optional[str] = None,
                 fd: Optional[int] = None, kind: Optional[str] = None, n: int = 0, flags: int = 0):
        self.mod, self.fn, self.path, self.path2, self.fd, self.kind = mod, fn, path, path2, fd, kind
        self.actor = ENV.actor()
        self.idx = -1
        self.n = n
        self.flags = flags
        self.data = None

    def label(self) -> str:
        p = self.path or ""
        if self.path2:
            p += " -> " + self.path2
        return f"{self.mod}.{self.fn} {p}"

    def __repr__(self) -> str:
        return f"{self.actor}:{self.label()}"


_counter = [0]
FD_PATH: dict = {}  # fd -> path for fds opened through the proxies


def _call(ev: Ev, thunk):
    hooks = ENV.hooks
    if not hooks:
        return thunk()
    ev.idx = _counter[0]
    _counter[0] += 1
    for h in hooks:
        h.before(ev)
    try:
        res = thunk()
    except BaseException as e:
        for h in hooks:
            h.after(ev, None, e)
        raise
    for h in hooks:
        h.after(ev, res, None)
    return res


def _touch(path: Optional[str]) -> None:
    if path is None:
        return
    try:
        _os.utime(path, (ENV.clock, ENV.clock))
    except OSError:
        pass


class _PathProxy:
    def __init__(self, mod: str):
        self._mod = mod

    def __getattr__(self, n: str) -> Any:
        return getattr(_os.path, n)

    def exists(self, p):
        return _call(Ev(self._mod, "exists", _os.fspath(p), kind="r"), lambda: _os.path.exists(p))

    def getmtime(self, p):
        return _call(Ev(self._mod, "getmtime", _os.fspath(p), kind="r"), lambda: _os.path.getmtime(p))

    def getsize(self, p):
        return _call(Ev(self._mod, "getsize", _os.fspath(p), kind="r"), lambda: _os.path.getsize(p))


class OsProxy:
    def __init__(self, mod: str):
        self._mod = mod
        self.path = _PathProxy(mod)

    def __getattr__(self, n: str) -> Any:
        return getattr(_os, n)

    def makedirs(self, p, *a, **k):
        return _call(Ev(self._mod, "makedirs", _os.fspath(p)), lambda: _os.makedirs(p, *a, **k))

    def open(self, p, flags, *a, **k):
        def th():
            fd = _os.open(p, flags, *a, **k)
            FD_PATH[fd] = _os.fspath(p)
            return fd

        kind = "w" if (flags & _os.O_CREAT) else None
        return _call(Ev(self._mod, "open", _os.fspath(p), kind=kind, flags=flags), th)

    def write(self, fd, data):
        ev = Ev(self._mod, "write", FD_PATH.get(fd), fd=fd, n=len(data))
        ev.data = bytes(data)
        return _call(ev, lambda: _os.write(fd, data))

    def fsync(self, fd):
        return _call(Ev(self._mod, "fsync", FD_PATH.get(fd), fd=fd), lambda: _os.fsync(fd))

    def close(self, fd):
        path = FD_PATH.get(fd)

        def th():
            r = _os.close(fd)
            FD_PATH.pop(fd, None)
            return r

        kind = "w" if self._mod == "file_lock" else None
        r = _call(Ev(self._mod, "close", path, fd=fd, kind=kind), th)
        if self._mod != "file_lock":
            _touch(path)
        return r

    def replace(self, src, dst):
        def th():
            _os.utime(src, (ENV.clock, ENV.clock))
            r = _os.replace(src, dst)
            ENV.on_publish(_os.fspath(dst))
            return r

        return _call(Ev(self._mod, "replace", _os.fspath(src), _os.fspath(dst), kind="w"), th)

    def remove(self, p):
        return _call(Ev(self._mod, "remove", _os.fspath(p), kind="w"), lambda: _os.remove(p))

    def unlink(self, p):
        return _call(Ev(self._mod, "unlink", _os.fspath(p), kind="w"), lambda: _os.unlink(p))

    def walk(self, top, *a, **k):
        return _call(Ev(self._mod, "walk", _os.fspath(top), kind="l"), lambda: list(_os.walk(top, *a, **k)))


class TempfileProxy:
    def __init__(self, mod: str):
        self._mod = mod

    def __getattr__(self, n: str) -> Any:
        return getattr(_tempfile, n)

    def mkstemp(self, suffix=None, prefix=None, dir=None, text=False):
        def th():
            fd, p = _tempfile.mkstemp(suffix=suffix, prefix=prefix, dir=dir, text=text)
            FD_PATH[fd] = p
            _touch(p)
            return fd, p

        return _call(Ev(self._mod, "mkstemp", dir, kind="w"), th)

    def NamedTemporaryFile(self, *a, **k):
        def th():
            f = _tempfile.NamedTemporaryFile(*a, **k)
            _touch(f.name)
            return f

        return _call(Ev(self._mod, "NamedTemporaryFile", k.get("dir"), kind="w"), th)


def make_open(mod: str):
    def _open(file, mode="r", *a, **k):
        if isinstance(file, int):
            return _REAL_OPEN(file, mode, *a, **k)
        kind = "r" if ("r" in mode and "+" not in mode) else "w"
        return _call(Ev(mod, "open", _os.fspath(file), kind=kind), lambda: _REAL_OPEN(file, mode, *a, **k))

    return _open


class FcntlProxy:
    def __init__(self):
        import fcntl as _f

        self._f = _f

    def __getattr__(self, n: str) -> Any:
        return getattr(self._f, n)

    def flock(self, fd, op):
        return _call(Ev("file_lock", "flock", FD_PATH.get(fd), fd=fd, kind="w", flags=op),
                     lambda: self._f.flock(fd, op))


class PqProxy:
    """Traces parquet writer open/close (content completion) and path reads."""

    def __init__(self, mod: str, real):
        self._mod = mod
        self._real = real

    def __getattr__(self, n: str) -> Any:
        return getattr(self._real, n)

    def ParquetWriter(self, where, *a, **k):
        real = self._real
        mod = self._mod
        path = where if isinstance(where, str) else None

        w = _call(Ev(mod, "pq_open", path), lambda: real.ParquetWriter(where, *a, **k))

        class _W:
            def __getattr__(s, n):
                return getattr(w, n)

            def close(s):
                r = _call(Ev(mod, "pq_close", path), lambda: w.close())
                if k.get("filesystem") is None:
                    _touch(path)
                return r

        return _W()

    def ParquetFile(self, source, *a, **k):
        if isinstance(source, str):
            return _call(Ev(self._mod, "pq_read", source, kind="r"), lambda: self._real.ParquetFile(source, *a, **k))
        return self._real.ParquetFile(source, *a, **k)

    def read_table(self, source, *a, **k):
        if isinstance(source, str):
            return _call(Ev(self._mod, "pq_read", source, kind="r"), lambda: self._real.read_table(source, *a, **k))
        return self._real.read_table(source, *a, **k)


_installed = [False]


def install_local_seams() -> None:
    if _installed[0]:
        return
    import datashard.data_operations as dops
    import datashard.file_lock as fl
    import datashard.integrity as integ
    import datashard.storage_backend as sb

    sb.os = OsProxy("storage_backend")
    sb.tempfile = TempfileProxy("storage_backend")
    sb.open = make_open("storage_backend")
    dops.os = OsProxy("data_operations")
    dops.tempfile = TempfileProxy("data_operations")
    dops.open = make_open("data_operations")
    dops.pq = PqProxy("data_operations", dops.pq)
    integ.open = make_open("integrity")
    fl.os = OsProxy("file_lock")
    fl.fcntl = FcntlProxy()
    _installed[0] = True
