"""Crash-state enumeration (engine E3b, DESIGN.md 2.4).

A process crash runs no handler, and the on-disk state at os-level step k does
not depend on what the process would have done after k.  So "the writer died
right after step k" == the directory tree as it is right after step k (the
kernel drops the flock, open fds vanish).  `CrashRecorder` is an `ENV.hooks`
listener: while an operation runs over the seams of `dsmc.localfs` it captures
the table tree

    * once before the first step,
    * in `after()` of every *effectful* event (makedirs, mkstemp,
      NamedTemporaryFile, open-for-write / os.open, write, fsync, close,
      replace, remove/unlink, flock, pq_open, pq_close), and
    * again in `before()` of whatever event comes next (this picks up what
      happens between two traced calls: the seam's own mtime touch, bytes the
      pyarrow C++ writer flushed),

merges identical trees by a content hash of (relative path, bytes, mtime) and
materialises every DISTINCT tree once (the crash *states*).  For each state it
remembers the step indices that produce it and whether the version pointer
already has its final content ("flipped").  Read-only events (exists, open r,
getmtime, walk, ...) are not steps; the recorder verifies that the tree does
not change across them (an untraced mutation would be a hole in the seams).

The pyarrow writer is C++ and cannot be traced per write, so for every
`pq_open` the temp parquet file is additionally materialised as empty / first
half / all of its final bytes (`torn` states).

Files whose mtime is "real" (the kernel stamps write() with the wall clock, the
seams put it back on the virtual clock at close/rename) are clamped to the
virtual clock of the crash: on a real system the mtime of a half-written file
is the time of the crash, never the future.
"""
from __future__ import annotations

import hashlib
import os
import shutil
from typing import Any, Dict, List, Optional, Tuple

from .env import ENV
from .faults import path_class
from .localfs import _REAL_OPEN
from .reader import HINT
from .report import HarnessError

EFFECT_FNS = {"makedirs", "mkstemp", "NamedTemporaryFile", "write", "fsync", "close", "replace", "remove", "unlink",
              "flock", "pq_open", "pq_close"}

Item = Tuple[Any, ...]  # ("d", rel) | ("l", rel, target) | ("f", rel, bytes, mtime_ms)


def is_effect(ev: Any) -> bool:
    return ev.fn in EFFECT_FNS or (ev.fn == "open" and ev.kind != "r")


def file_class(rel: str) -> str:
    """Stable class of a table-relative path; temp files name what they are the temp file of."""
    rel = rel.strip("/")
    d, _, b = rel.rpartition("/")
    if b.startswith(".tmp."):
        parts = b.split(".", 3)
        final = parts[3] if len(parts) == 4 else ""
        return f"tmp({file_class((d + '/' if d else '') + final)})"
    if d == "data" and b.startswith("tmp") and b.endswith(".parquet"):
        return "tmp(data)"
    return path_class(rel)


def scan_tree(root: str, clock: float) -> List[Item]:
    items: List[Item] = []
    for r, ds, fs in os.walk(root):
        ds.sort()
        rel_r = os.path.relpath(r, root)
        rel_r = "" if rel_r == "." else rel_r + "/"
        for d in list(ds):
            p = os.path.join(r, d)
            if os.path.islink(p):
                items.append(("l", rel_r + d, os.readlink(p)))
                ds.remove(d)
            else:
                items.append(("d", rel_r + d))
        for f in sorted(fs):
            p = os.path.join(r, f)
            if os.path.islink(p):
                items.append(("l", rel_r + f, os.readlink(p)))
                continue
            try:
                st = os.stat(p)
                with _REAL_OPEN(p, "rb") as fh:
                    data = fh.read()
            except FileNotFoundError:
                continue
            items.append(("f", rel_r + f, data, int(round(min(st.st_mtime, clock) * 1000))))
    items.sort(key=lambda it: (it[1], it[0]))
    return items


def tree_hash(items: List[Item], root: str) -> str:
    """Content hash; the table root (stored in the metadata json as `location`) is masked so that the hash is
    the same in every process; the mtime of lock files is irrelevant (never read by anybody) and left out."""
    h = hashlib.md5()
    tok = root.encode()
    for it in items:
        if it[0] == "f":
            mt = 0 if it[1].startswith(".locks/") else it[3]
            body = it[2].replace(tok, b"<ROOT>")
            h.update(f"f\0{it[1]}\0{mt}\0{len(body)}\0".encode())
            h.update(body)
        else:
            h.update(("\0".join(str(x) for x in it) + "\0").encode())
    return h.hexdigest()[:16]


def materialise(items: List[Item], dst: str) -> None:
    shutil.rmtree(dst, ignore_errors=True)
    os.makedirs(dst)
    for it in items:
        p = os.path.join(dst, it[1])
        if it[0] == "d":
            os.makedirs(p, exist_ok=True)
        elif it[0] == "l":
            os.makedirs(os.path.dirname(p), exist_ok=True)
            os.symlink(it[2], p)
        else:
            os.makedirs(os.path.dirname(p), exist_ok=True)
            with _REAL_OPEN(p, "wb") as f:
                f.write(it[2])
            os.utime(p, (it[3] / 1000.0, it[3] / 1000.0))


def items_files(items: List[Item]) -> Dict[str, bytes]:
    return {it[1]: it[2] for it in items if it[0] == "f"}


class CrashRecorder:
    def __init__(self, root: str, outdir: str, selfcheck: bool = True):
        self.root = os.path.realpath(root)
        self.outdir = outdir
        self.selfcheck = selfcheck
        self.steps: List[Dict[str, Any]] = []          # {"i", "label", "hashes": [..]}
        self.states: Dict[str, Dict[str, Any]] = {}     # hash -> state record
        self.order: List[str] = []
        self.pending = False
        self.in_pq = 0
        self.last_hash: Optional[str] = None
        self.pq: List[Dict[str, Any]] = []
        self.read_events = 0
        self.flip_event_step: Optional[int] = None
        self.initial_hash: Optional[str] = None
        self.final_hash: Optional[str] = None
        self.initial_files: List[str] = []
        self.final_files: List[str] = []
        self.torn_built = 0
        os.makedirs(outdir, exist_ok=True)

    # ---- labels ----------------------------------------------------------------
    def rel(self, p: Optional[str]) -> str:
        if p is None:
            return "?"
        for q in (p, os.path.realpath(p)):
            if q == self.root:
                return ""
            if q.startswith(self.root + os.sep):
                return q[len(self.root) + 1:]
        return "//" + p

    def label(self, ev: Any, res: Any) -> str:
        p = ev.path
        if ev.fn == "mkstemp" and res is not None:
            p = res[1]
        elif ev.fn == "NamedTemporaryFile" and res is not None:
            p = res.name
        elif ev.fn == "replace":
            p = ev.path2
        cls = file_class(self.rel(p))
        extra = ""
        if ev.fn == "flock":
            import fcntl

            extra = "[UN]" if ev.flags & fcntl.LOCK_UN else "[EX]"
        return f"{ev.mod}.{ev.fn}:{cls}{extra}"

    # ---- capture ---------------------------------------------------------------
    def _capture(self, step: int) -> Tuple[str, List[Item]]:
        items = scan_tree(self.root, ENV.clock)
        h = tree_hash(items, self.root)
        st = self.states.get(h)
        if st is None:
            path = os.path.join(self.outdir, h)
            materialise(items, path)
            files = items_files(items)
            st = {"hash": h, "path": path, "steps": [], "first": step, "ptr": files.get(HINT), "torn": None,
                  "nfiles": len(files), "clock": ENV.clock}
            self.states[h] = st
            self.order.append(h)
        if step not in st["steps"]:
            st["steps"].append(step)
        if step >= 0 and h not in self.steps[step]["hashes"]:
            self.steps[step]["hashes"].append(h)
        self.last_hash = h
        return h, items

    def begin(self) -> None:
        h, items = self._capture(-1)
        self.initial_hash = h
        self.initial_files = sorted(items_files(items))

    def before(self, ev: Any) -> None:
        if self.pending:
            self._capture(len(self.steps) - 1)
            self.pending = False
        elif self.selfcheck and not self.in_pq:
            items = scan_tree(self.root, ENV.clock)
            if tree_hash(items, self.root) != self.last_hash:
                raise HarnessError(f"the table tree changed without a traced effectful event (before {ev.label()})")

    def after(self, ev: Any, res: Any, exc: Any) -> None:
        if not is_effect(ev):
            self.read_events += 1
            return
        i = len(self.steps)
        self.steps.append({"i": i, "label": self.label(ev, res) + ("!raised" if exc is not None else ""), "hashes": []})
        if ev.fn == "replace" and ev.path2 and ev.path2.endswith(HINT) and exc is None:
            self.flip_event_step = i
        h, items = self._capture(i)
        self.pending = True
        if ev.fn == "pq_open" and exc is None:
            self.in_pq += 1
            self.pq.append({"step": i, "rel": self.rel(ev.path), "items": items, "final": None, "clock": ENV.clock})
        elif ev.fn == "pq_close":
            self.in_pq = max(0, self.in_pq - 1)
            if exc is None and ev.path:
                for rec in reversed(self.pq):
                    if rec["rel"] == self.rel(ev.path) and rec["final"] is None:
                        with _REAL_OPEN(ev.path, "rb") as f:
                            rec["final"] = f.read()
                        break

    def end(self) -> None:
        if self.pending:
            self._capture(len(self.steps) - 1)
            self.pending = False
        items = scan_tree(self.root, ENV.clock)
        h = tree_hash(items, self.root)
        if h != self.last_hash:
            raise HarnessError("tree changed after the last captured state")
        self.final_hash = h
        self.final_files = sorted(items_files(items))
        for s in self.steps:
            if not s["hashes"]:
                raise HarnessError(f"step {s['i']} {s['label']} has no captured state")
        self._classify()
        self._torn()

    def _classify(self) -> None:
        init_ptr = self.states[self.initial_hash]["ptr"]
        final_ptr = self.states[self.final_hash]["ptr"]
        self.has_flip = init_ptr != final_ptr
        seen_flipped = False
        for h in self.order:  # first-seen order == step order
            st = self.states[h]
            st["flipped"] = bool(self.has_flip and st["ptr"] == final_ptr)
            if seen_flipped and not st["flipped"]:
                raise HarnessError("a not-flipped state follows a flipped one")
            seen_flipped = seen_flipped or st["flipped"]
            st["label"] = "initial" if st["first"] < 0 else self.steps[st["first"]]["label"]

    def _torn(self) -> None:
        for k, rec in enumerate(self.pq):
            final = rec["final"]
            if final is None:
                raise HarnessError(f"pq_open of {rec['rel']} has no matching pq_close")
            base_flipped = self.states[tree_hash(rec["items"], self.root)]["flipped"]
            for name, body in (("empty", b""), ("half", final[:len(final) // 2]), ("full", final)):
                items = []
                found = False
                for it in rec["items"]:
                    if it[0] == "f" and it[1] == rec["rel"]:
                        items.append(("f", it[1], body, int(round(rec["clock"] * 1000))))
                        found = True
                    else:
                        items.append(it)
                if not found:
                    raise HarnessError(f"temp parquet {rec['rel']} not in the tree captured after pq_open")
                self.torn_built += 1
                h = tree_hash(items, self.root)
                if h in self.states:
                    self.states[h].setdefault("also_torn", []).append([k, name])
                    continue
                path = os.path.join(self.outdir, h)
                materialise(items, path)
                files = items_files(items)
                self.states[h] = {"hash": h, "path": path, "steps": [rec["step"]], "first": rec["step"],
                                  "ptr": files.get(HINT), "torn": [k, name], "nfiles": len(files),
                                  "clock": rec["clock"], "flipped": base_flipped,
                                  "label": self.steps[rec["step"]]["label"] + f"+torn_{name}"}
                self.order.append(h)

    # ---- results ---------------------------------------------------------------
    def state_list(self) -> List[Dict[str, Any]]:
        out = []
        for h in self.order:
            st = dict(self.states[h])
            st.pop("ptr", None)
            st["nontrivial"] = h not in (self.initial_hash, self.final_hash)
            out.append(st)
        return out

    def discard(self) -> None:
        shutil.rmtree(self.outdir, ignore_errors=True)
