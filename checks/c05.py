"""C05 - garbage collection never deletes anything reachable or in flight, and does
remove old orphans - for every history and every spelling of the table location.

Engine E2 (dsmc/hist.py): breadth-first explicit-state search over operation
histories; every transition is a real DataShard API call on a real table opened
through the location spelling under test.  One search per spelling.

Oracle at every `gc(grace)` transition (independent reader, before / after):
  R = files reachable from ALL retained snapshots (manifest lists, manifests, data)
  P = files registered by live (open, not abandoned) transactions
  D = files that disappeared (tree diff)
  * D & R == {}                      else  deleted_reachable
  * D & P == {}                      else  deleted_inflight
  * every retained snapshot re-reads with the content recorded at its commit
                                     else  retained_snapshot_damaged
  * every data / manifest file that is unreferenced, not protected by a fresh
    in-flight marker and older than the grace is in D
                                     else  old_orphan_not_removed
  * GarbageCollectionAborted on a healthy table while such old orphans exist
                                     ->    gc_aborts_on_healthy_table
    (aborts without old orphans are only counted).
"""
from __future__ import annotations

import os
from typing import Any, Dict, List, Set, Tuple

from dsmc import hist
from dsmc.hist import (DAY_MS, FULL_ALPHABET, GRACE_LABEL, HOUR_MS, INFLIGHT_TIMEOUT_MS, Transition, file_class, ms,
                       variant)
from dsmc.report import Report

PROP = "C05"
LEVEL = "model_checking"


# ---------------------------------------------------------------------------
# oracle
# ---------------------------------------------------------------------------
def oracle(T: Transition) -> None:
    if T.op[0] != "gc":
        return
    rep = T.rep
    assert rep is not None
    grace = int(T.op[1])
    sp = T.v["spelling"]
    pre, post = T.pre, T.post
    clock_ms = ms(T.clock_pre)
    rep.add("evaluations")
    rep.add("gc_transitions")

    def key(problem: str, **kw: Any) -> Dict[str, Any]:
        k = {"spelling": sp, "backend": T.v["backend"], "op": "gc", "grace": GRACE_LABEL.get(grace, str(grace)),
             "problem": problem}
        k.update(kw)
        return k

    def detail(**kw: Any) -> Dict[str, Any]:
        d = T.base_detail()
        d.update(kw)
        return d

    R = pre.reachable()
    healthy = not pre.errors
    live = [tx for tx in T.txs_pre if clock_ms - ms(tx["born"]) <= INFLIGHT_TIMEOUT_MS]
    P: Set[str] = set()
    for tx in live:
        P.update(p.lstrip("/") for p in tx["written"])
    protected = {t for (t, age) in T.markers_pre.values() if age <= INFLIGHT_TIMEOUT_MS}
    D = set(pre.files) - set(post.files)
    age = {rel: clock_ms - ms(mt) for rel, mt in pre.files.items()}
    cand = [rel for rel in pre.files if file_class(rel) in ("data", "manifest", "manifest_list")]
    old_orphans = sorted(rel for rel in cand if rel not in R and rel not in P and rel not in protected and age[rel] > grace)
    old_any = [rel for rel in cand if age[rel] > grace]
    if old_any or P:
        rep.nontrivial((T.v["name"], T.pre_digest, grace))
    if old_orphans:
        rep.add("gc_transitions_with_old_orphans")
    if P:
        rep.add("gc_transitions_with_live_tx_files")
    if any(rel in R for rel in old_any):
        rep.add("gc_transitions_with_reachable_files_older_than_grace")

    # ---- safety -----------------------------------------------------------
    for cls in sorted({file_class(f) for f in D & R}):
        fs = sorted(f for f in D & R if file_class(f) == cls)
        T.flag(key("deleted_reachable", file_class=cls),
               detail(deleted=fs[:6], n_deleted=len(fs), n_reachable=len(R), stats=T.out.get("stats")))
    if D & P:
        T.flag(key("deleted_inflight"), detail(deleted=sorted(D & P)[:6]))
    # every retained snapshot stays fully readable with its recorded content
    for s in post.snaps:
        rec = T.model_pre.byid.get(s.id)
        if rec is None or not rec["readable"]:
            continue
        bad = None
        if s.err is not None:
            bad = "unreadable"
        elif tuple(sorted(s.data_files)) != rec["files"] or s.rows != rec["rows"]:
            bad = "content_differs"
        if bad and pre.byid.get(s.id) is not None and pre.byid[s.id].err is None:
            T.flag(key("retained_snapshot_damaged", how=bad), detail(snapshot_commit_index=rec["idx"], error=s.err))
            break
    if set(post.ids) != set(pre.ids) or post.current_id != pre.current_id:
        rep.add("info_gc_changed_snapshot_list")
    other = D - R - P - set(cand)
    if other:
        rep.add("info_gc_deleted_non_data_non_manifest_files", len(other))
        rep.cov.setdefault("info_other_deleted_classes", {})
        for f in other:
            c = file_class(f)
            rep.cov["info_other_deleted_classes"][c] = rep.cov["info_other_deleted_classes"].get(c, 0) + 1
    young_deleted = [f for f in D if f in cand and age[f] <= grace and f not in R and f not in P]
    if young_deleted:
        rep.add("info_orphans_not_older_than_grace_deleted", len(young_deleted))  # the statement is silent
        if len(rep.notes) < 3:
            rep.notes.append(f"young orphan deleted: variant {T.v['name']} history {T.hist} files "
                             f"{[(f, age[f]) for f in young_deleted[:3]]}")
    # ---- liveness ---------------------------------------------------------
    st = T.out["status"]
    if st == "aborted":
        rep.add("gc_aborted")
        if healthy:
            if old_orphans:
                T.flag(key("gc_aborts_on_healthy_table"),
                       detail(old_orphans=old_orphans[:6], n_old_orphans=len(old_orphans), error=T.out.get("exc")),
                       prune=False)
            else:
                rep.add("liveness_failures_gc_aborted_on_healthy_table_without_old_orphans")
    elif st == "ok":
        left = [f for f in old_orphans if f not in D]
        for cls in sorted({file_class(f) for f in left}):
            fs = [f for f in left if file_class(f) == cls]
            T.flag(key("old_orphan_not_removed", file_class=cls),
                   detail(left_behind=fs[:6], n_left=len(fs), ages_ms=[age[f] for f in fs[:6]], stats=T.out.get("stats")),
                   prune=False)
        if old_orphans and not left:
            rep.add("gc_transitions_that_removed_all_old_orphans")
    else:
        rep.add("info_gc_raised_other_exception")
        if len(rep.notes) < 5:
            rep.notes.append(f"gc raised {T.out.get('exc')} in variant {T.v['name']}")


# ---------------------------------------------------------------------------
# variants
# ---------------------------------------------------------------------------
C05_ALPHABET = tuple(FULL_ALPHABET)


def spellings(tier: str) -> List[Dict[str, Any]]:
    q = tier == "quick"
    d_main = 5 if q else 6
    d_sp = 3 if q else 4
    d_s3 = 3
    alpha_sp = tuple(o for o in C05_ALPHABET if o not in (("commit_tx", 1), ("rollback_tx", 1)))
    V: List[Dict[str, Any]] = []

    def add(name: str, **kw: Any) -> None:
        V.append(variant(name, **kw))

    add("absolute", spelling="absolute", layout="abs", loc="tbl", depth=d_main, alphabet=C05_ALPHABET, max_open=1 if q else 2)
    if not q:
        add("absolute-long-ages", spelling="absolute", layout="abs", loc="tbl", depth=4, max_open=1,
            alphabet=alpha_sp + (hist.AGE_LONG,))
        add("absolute-retention", spelling="absolute", layout="abs", loc="tbl", depth=4, props=True, max_open=1,
            alphabet=alpha_sp)
    # the spelling searches start from a table holding one committed append (the empty start is covered by `absolute`)
    one = dict(depth=d_sp, alphabet=alpha_sp, max_open=1, base=[("append",)])
    add("relative", spelling="relative", layout="rel", loc="tbl", **one)
    add("relative-dot-slash", spelling="relative-dot-slash", layout="rel", loc="./tbl", **one)
    add("relative-cwd-dot", spelling="relative-cwd", layout="rel-dot", loc=".", **one)
    add("trailing-slash", spelling="trailing-slash", layout="abs", loc="tbl/", **one)
    add("relative-trailing-slash", spelling="relative-trailing-slash", layout="rel", loc="tbl/", **one)
    add("absolute-dotdot", spelling="absolute-with-dotdot", layout="abs-dotdot", loc="tbl", **one)
    add("symlinked-root", spelling="symlinked-root", layout="symlink-root", loc="tbl", **one)
    add("symlinked-parent", spelling="symlinked-parent", layout="symlink-parent", loc="tbl", **one)
    add("absolute-named-data", spelling="absolute-dir-named-data", layout="abs", loc="data", **one)
    add("absolute-named-metadata", spelling="absolute-dir-named-metadata", layout="abs", loc="metadata", **one)
    # pre-built files registered under non-canonical spellings of their table-relative path
    add("absolute-spelled-files", spelling="absolute", layout="abs", loc="tbl", depth=d_sp, max_open=1, base=[("append",)],
        alphabet=(("append",), ("delete_file", "newest"), ("expire", "all_but_current"), ("gc", 0), ("gc", hist.HOUR_MS),
                  ("age", 7200)) + hist.SPELLED_OPS)
    for nm in ("d", "data", "m", "meta", "metadata"):
        add(f"relative-{nm}", spelling=f"relative-prefix-of-{'data' if nm in ('d', 'data') else 'metadata'}",
            layout="rel", loc=nm, **one)
    s3 = dict(backend="s3", layout="s3", depth=d_s3, alphabet=alpha_sp, max_open=1, base=[("append",)])
    add("s3-tbl", spelling="s3-prefix", loc="tbl", **s3)
    add("s3-tbl-slash", spelling="s3-prefix-trailing-slash", loc="tbl/", **s3)
    add("s3-slash-tbl", spelling="s3-prefix-leading-slash", loc="/tbl", **s3)
    add("s3-data", spelling="s3-prefix-of-data", loc="data", **s3)
    # the process runs in a non-UTC host time zone (object / file ages must not depend on it)
    add("s3-tbl-tz+14", spelling="s3-prefix-host-tz-utc+14", loc="tbl", tz="XXX-14", **s3)
    add("s3-tbl-tz-8", spelling="s3-prefix-host-tz-utc-8", loc="tbl", tz="YYY8", **s3)
    add("relative-tz+14", spelling="relative-host-tz-utc+14", layout="rel", loc="tbl", tz="XXX-14", **one)
    if not q:
        add("s3-d", spelling="s3-prefix-of-data", loc="d", **s3)
        add("s3-metadata", spelling="s3-prefix-of-metadata", loc="metadata", **s3)
        add("s3-m", spelling="s3-prefix-of-metadata", loc="m", **s3)
    return V


# ---------------------------------------------------------------------------
# driver
# ---------------------------------------------------------------------------
def run(tier: str, seed: int) -> Report:
    rep = Report(PROP, tier, seed, LEVEL)
    V = spellings(tier)
    res = hist.search(PROP, tier, seed, V, "checks.c05", rep, witness_stride=3 if tier == "quick" else 10)
    states = sum(len(vis) for vis in res["visited"].values())
    rep.cov["states"] = states
    rep.cov["states_per_variant_per_depth"] = {n: d for n, d in res["per_depth"].items()}
    rep.cov["variants"] = len(V)
    rep.cov["max_depth"] = max(v["depth"] for v in V)
    rep.cov["depth_per_variant"] = {v["name"]: v["depth"] for v in V}
    rep.cov["alphabet"] = [hist.op_label(o) for o in C05_ALPHABET + hist.SPELLED_OPS]
    if tier == "thorough":
        main = V[0]
        d = hist.differential(PROP, tier, seed, main, 4, "checks.c05", res["visited"][main["name"]],
                              set(rep.violations), rep)
        rep.cov["differential"] = {"variant": main["name"], "depth": 4, "histories": d["nodes"], "canonical_states": d["states"]}
    rep.cov["states_counting"] = "distinct canonical states, summed over variants (each variant is its own search)"
    rep.cov["exhaustive"] = not rep.caps
    rep.cov["rule"] = (
        "per location spelling: BFS over all histories of <= depth symbols of the alphabet (guards: a symbol is enabled "
        "when its target exists), every transition = real API call on the real table re-opened through that spelling; "
        "the successor of a transition that violated a state property or left the table unreadable is not expanded (counted as states_pruned_after_violation / states_broken_not_expanded). "
        "states deduplicated by the canonical form of dsmc/hist.py. evaluations = gc transitions judged. A gc transition "
        "is non-trivial when some data/manifest file on disk is older than the grace used or a live transaction has "
        "registered files; distinct = (variant, canonical pre-state, grace)")
    rep.assumptions += [
        "a transaction is live while it is open and younger than the documented 24 h abandonment window (markers older than "
        "that are swept by design); ages reachable here stay below it except in the long-ages variant",
        "files protected by a fresh in-flight marker (incl. markers left by an ambiguous failed commit on S3) are not required "
        "to be removed; orphans exactly as old as the grace, or younger, may be kept or removed (counted, not judged)",
        "only data files and files under metadata/manifests are subject to the removal requirement (superseded metadata json "
        "files are not collected by design)",
        "file ages enter the canonical form as buckets relative to {0, 1 h, 24 h, 10 d}; with +2 h steps the buckets cannot "
        "distinguish futures within the depth bound (checked by the un-deduplicated differential run in the thorough tier)",
        "open transactions are carried across re-opens by restoring the Transaction object's queue and file lists",
        "FakeS3 is strongly consistent; LastModified follows the virtual clock",
    ]
    return rep


def replay(case: Dict[str, Any]) -> Dict[str, Any]:
    det = case["detail"]
    v = dict(det["variant"])
    v["alphabet"] = list(C05_ALPHABET + hist.SPELLED_OPS)
    ops = [hist.parse_op(x) for x in det["history"]]
    rep = Report(PROP, case.get("tier", "quick"), case.get("seed", 0), LEVEL)
    cwd = os.getcwd()
    try:
        hist.run_history(v, ops, "checks.c05", rep, case.get("seed", 0))
    finally:
        os.chdir(cwd)
    hit = [x for x in rep.violations.values() if x["key"] == case["key"]]
    return {"violated": bool(hit), "matching": hit[:1], "all_keys": [x["key"] for x in rep.violations.values()]}
